"""Thin proxy for the ``np`` global of a partitura module under analysis.

Environment model.  numpy *object* arrays keep CrossHair proxies alive
(comparisons, arithmetic, searchsorted/sort/diff/cumsum/r_/insert/delete all
call the Python operators of the elements), so numpy itself stays real.  Only
entry points that force a numeric dtype -- and would therefore call
``__float__``/``__int__``/``__index__`` on a proxy, realising it or raising --
are redirected: when a symbolic value is present the array is built with
``dtype=object`` instead, as a ``SymArray`` (ndarray subclass) whose
``astype(int|float)`` and a few reductions are element-wise Python.  With no
symbolic value present every call is passed to numpy unchanged, so concrete
runs (model validation) exercise the same code as the real library.
"""
from __future__ import annotations

import math

import numpy as _np

from engine.sym import is_symbolic


def has_sym(obj, depth=0) -> bool:
    if isinstance(obj, _np.ndarray):
        if obj.dtype != object:
            if obj.dtype.names:
                return any(obj.dtype[n] == object and has_sym(obj[n]) for n in obj.dtype.names)
            return False
        return any(has_sym(v, depth + 1) for v in obj.ravel().tolist())
    if isinstance(obj, (list, tuple)):
        return any(has_sym(v, depth + 1) for v in obj)
    return is_symbolic(obj)


_NUMERIC_KINDS = "iufb"


def _is_numeric_dtype(dt) -> bool:
    if dt is None:
        return False
    try:
        d = _np.dtype(dt)
    except Exception:
        return False
    return d.names is None and d.kind in _NUMERIC_KINDS


def _objectify_dtype(dt):
    """structured dtype with numeric fields -> same names with object fields."""
    d = _np.dtype(dt)
    if d.names is None:
        return object
    return _np.dtype([(n, object if d[n].kind in _NUMERIC_KINDS else d[n]) for n in d.names])


def _py_int(v):
    return int(v)  # CrossHair intercepts int() on proxies (symbolic truncation)


def _py_float(v):
    if isinstance(v, float) or is_symbolic(v):
        return v + 0.0 if not isinstance(v, float) else v
    return float(v)


class SymArray(_np.ndarray):
    """object ndarray that stays symbolic through astype()."""

    def __array_finalize__(self, obj):
        pass

    @staticmethod
    def _fix_key(key):
        def fix(k):
            if isinstance(k, _np.ndarray) and k.dtype == object and k.size and all(
                    isinstance(v, bool) or type(v).__name__ == "SymbolicBool" for v in k.ravel().tolist()):
                return _np.array([bool(v) for v in k.ravel().tolist()], dtype=bool).reshape(k.shape)
            return k

        if isinstance(key, tuple):
            return tuple(fix(k) for k in key)
        return fix(key)

    def __getitem__(self, key):
        return _np.ndarray.__getitem__(self, SymArray._fix_key(key))

    def __setitem__(self, key, value):
        return _np.ndarray.__setitem__(self, SymArray._fix_key(key), value)

    def astype(self, dtype, *a, **k):
        if self.dtype == object and _is_numeric_dtype(dtype) and has_sym(self):
            kind = _np.dtype(dtype).kind
            conv = _py_int if kind in "iu" else (bool if kind == "b" else _py_float)
            out = _np.empty(self.shape, dtype=object).view(SymArray)
            flat_in = self.ravel().tolist()
            fo = out.reshape(-1)
            for i, v in enumerate(flat_in):
                fo[i] = conv(v)
            return fo.reshape(self.shape) if self.shape else fo.reshape(())
        return _np.asarray(self).astype(dtype, *a, **k)


def _build_object(obj, shape_like=None):
    """np.array(obj, dtype=object) that never iterates into proxies."""
    if isinstance(obj, _np.ndarray):
        a = obj.astype(object) if obj.dtype != object else obj.copy()
        return a.view(SymArray)

    def shape_of(o):
        if isinstance(o, (list, tuple)):
            if len(o) == 0:
                return (0,)
            subs = [shape_of(v) for v in o]
            if all(s == subs[0] for s in subs):
                return (len(o),) + subs[0]
            return (len(o),)
        if isinstance(o, _np.ndarray):
            return o.shape
        return ()

    shp = shape_of(obj)
    out = _np.empty(shp, dtype=object)
    if shp == ():
        out[()] = obj
        return out.view(SymArray)

    def fill(o, idx):
        if len(idx) == len(shp):
            out[idx] = o
            return
        for i, v in enumerate(o):
            fill(v, idx + (i,))

    fill(obj, ())
    return out.view(SymArray)


_NO_WRAP = {"dtype", "errstate", "vectorize", "iinfo", "finfo"}


def _wrap_result(r):
    """object-dtype results stay SymArray so that .astype(int) etc. remain symbolic."""
    if type(r) is _np.ndarray and r.dtype == object:
        return r.view(SymArray)
    if isinstance(r, tuple):
        return tuple(_wrap_result(x) for x in r)
    return r


class _IndexWrap:
    def __init__(self, obj):
        self._obj = obj

    def __getitem__(self, key):
        items = key if isinstance(key, tuple) else (key,)
        if self._obj is _np.r_ and any(has_sym(k) or is_symbolic(k) for k in items) and not any(isinstance(k, (str, slice)) for k in items):
            # 1-d concatenation of scalars / arrays with symbolic members (numpy's r_ formats and probes its items)
            flat = []
            for k in items:
                if isinstance(k, _np.ndarray):
                    flat.extend(k.ravel().tolist())
                elif isinstance(k, (list, tuple)):
                    flat.extend(list(k))
                else:
                    flat.append(k)
            return _build_object(flat)
        return _wrap_result(self._obj[key])


class SymNP:
    """Drop-in for the ``np`` module global."""

    def __init__(self):
        self._np = _np

    def __getattr__(self, name):
        attr = getattr(_np, name)
        if name in ("r_", "c_"):
            return _IndexWrap(attr)
        if callable(attr) and not isinstance(attr, (type, _np.ufunc)) and name not in _NO_WRAP:
            def wrapped(*a, **k):
                return _wrap_result(attr(*a, **k))

            wrapped.__name__ = name
            return wrapped
        return attr

    # ---- constructors that would force numeric dtypes
    def array(self, obj, dtype=None, *a, **k):
        if self.zeros_object and not has_sym(obj) and _is_numeric_dtype(dtype) and _np.dtype(dtype).kind in "fi":
            from engine import sym as _sym

            if _sym._ACTIVE["symbolic"] and isinstance(obj, _np.ndarray) and obj.dtype == object:
                return _build_object(obj)  # a buffer that will receive symbolic values later
        if has_sym(obj):
            if dtype is not None and _np.dtype(dtype).names:
                odt = _objectify_dtype(dtype)
                r = _np.array(obj, dtype=odt, *a, **k)
                # "module!!": a SymArray view, so that table[field].astype(float) stays symbolic, too (opt-in: SymArray
                # indexing turns symbolic masks into forks, which multiplies paths for harnesses that filter tables)
                return r.view(SymArray) if self.structured_view else r
            return _build_object(obj)
        return _np.array(obj, dtype, *a, **k) if dtype is not None else _np.array(obj, *a, **k)

    def asarray(self, obj, dtype=None, *a, **k):
        if has_sym(obj):
            if isinstance(obj, _np.ndarray) and obj.dtype == object:
                return obj
            return self.array(obj, dtype)
        return _np.asarray(obj, dtype, *a, **k) if dtype is not None else _np.asarray(obj, *a, **k)

    def fromiter(self, it, dtype=None, *a, **k):
        vals = list(it)
        if has_sym(vals):
            return _build_object(vals)
        return _np.fromiter(vals, dtype, *a, **k)

    def broadcast_to(self, array, shape, subok=False):
        if isinstance(array, _np.ndarray) and array.dtype == object and has_sym(array):
            return _np.broadcast_to(array.view(SymArray), shape, subok=True)
        return _np.broadcast_to(array, shape, subok=subok)

    def ndim(self, x):
        if is_symbolic(x):
            return 0
        return _np.ndim(x)

    def atleast_1d(self, x):
        if is_symbolic(x):
            return _build_object([x])
        return _np.atleast_1d(x)

    # ---- ufuncs without an object loop
    def _elementwise(self, fn, x, real):
        if isinstance(x, _np.ndarray) and x.dtype == object:
            out = _np.empty(x.shape, dtype=object).view(SymArray)
            fo = out.reshape(-1)
            for i, v in enumerate(x.ravel().tolist()):
                fo[i] = fn(v)
            return out
        if is_symbolic(x):
            return fn(x)
        return real(x)

    def round(self, x, decimals=0, *a, **k):
        if decimals == 0:
            return self._elementwise(lambda v: _sym_round(v), x, lambda y: _np.round(y, decimals, *a, **k))
        return _np.round(x, decimals, *a, **k)

    def rint(self, x, *a, **k):
        return self._elementwise(lambda v: _sym_round(v), x, lambda y: _np.rint(y, *a, **k))

    def floor(self, x, *a, **k):
        return self._elementwise(lambda v: _sym_floor(v), x, lambda y: _np.floor(y, *a, **k))

    def ceil(self, x, *a, **k):
        return self._elementwise(lambda v: -_sym_floor(-v), x, lambda y: _np.ceil(y, *a, **k))

    def abs(self, x, *a, **k):
        return self._elementwise(lambda v: v if v >= 0 else -v, x, lambda y: _np.abs(y, *a, **k))

    absolute = abs

    def sign(self, x, *a, **k):
        return self._elementwise(lambda v: (1 if v > 0 else (-1 if v < 0 else 0)), x, lambda y: _np.sign(y, *a, **k))

    def isnan(self, x, *a, **k):
        return self._elementwise(lambda v: v != v, x, lambda y: _np.isnan(y, *a, **k))

    def isclose(self, a, b, rtol=1e-05, atol=1e-08, **k):
        if has_sym(a) or has_sym(b) or is_symbolic(a) or is_symbolic(b):
            aa = a if isinstance(a, _np.ndarray) else _build_object(a)
            bb = b if isinstance(b, _np.ndarray) else _build_object(b)
            aa, bb = _np.broadcast_arrays(aa, bb)
            out = _np.empty(aa.shape, dtype=bool)
            fo = out.reshape(-1)
            for i, (x, y) in enumerate(zip(aa.ravel().tolist(), bb.ravel().tolist())):
                d = x - y
                d = d if d >= 0 else -d
                ay = y if y >= 0 else -y
                fo[i] = bool(d <= atol + rtol * ay)
            return out if out.shape else bool(out[()])
        return _np.isclose(a, b, rtol=rtol, atol=atol, **k)

    def searchsorted(self, a, v, side="left", sorter=None):
        if sorter is None and (is_symbolic(v) or has_sym(v) or has_sym(a)):
            seq = a.tolist() if isinstance(a, _np.ndarray) else list(a)

            def one(q):
                i = 0
                if side == "left":
                    while i < len(seq) and seq[i] < q:
                        i += 1
                else:
                    while i < len(seq) and seq[i] <= q:
                        i += 1
                return i

            if isinstance(v, (list, tuple, _np.ndarray)) and not (isinstance(v, _np.ndarray) and v.ndim == 0):
                return _np.array([one(q) for q in (v.tolist() if isinstance(v, _np.ndarray) else v)], dtype=int)
            return one(v.item() if isinstance(v, _np.ndarray) else v)
        return _np.searchsorted(a, v, side=side, sorter=sorter)

    structured_view = False
    zeros_object = False  # per-instance switch: float zeros become object arrays under symbolic execution

    def zeros(self, shape, dtype=float, *a, **k):
        from engine import sym as _sym

        if is_symbolic(shape):
            shape = _sym.realize(shape)
        elif isinstance(shape, tuple) and any(is_symbolic(v) for v in shape):
            shape = tuple(_sym.realize(v) for v in shape)
        if self.zeros_object and _sym._ACTIVE["symbolic"] and dtype is float:
            out = _np.empty(shape, dtype=object)
            out.fill(0.0)
            return out.view(SymArray)
        return _np.zeros(shape, dtype, *a, **k)

    def ones(self, shape, dtype=float, *a, **k):
        from engine import sym as _sym

        if self.zeros_object and _sym._ACTIVE["symbolic"] and dtype is float:
            out = _np.empty(shape, dtype=object)
            out.fill(1.0)
            return out.view(SymArray)
        return _np.ones(shape, dtype, *a, **k)

    def arange(self, *args, **k):
        if any(is_symbolic(v) for v in args) and len(args) == 2 and not k:
            from engine import sym as _sym

            a, b = args
            n = _sym.realize(b - a)  # only the length is made concrete
            return _build_object([a + i for i in range(max(n, 0))]) if n > 0 else _np.empty((0,), dtype=object).view(SymArray)
        return _np.arange(*args, **k)

    def clip(self, a, a_min=None, a_max=None, **k):
        if isinstance(a, _np.ndarray) and a.dtype == object:
            def c(v):
                if a_min is not None and v < a_min:
                    v = a_min
                if a_max is not None and v > a_max:
                    v = a_max
                return v

            return self._elementwise(c, a, None)
        return _np.clip(a, a_min, a_max, **k)


def _sym_floor(v):
    if is_symbolic(v):
        i = int(v)  # truncation toward zero (symbolic)
        return i - 1 if i > v else i
    return math.floor(v)


def _sym_round(v):
    """round-half-even like np.round / np.rint."""
    if isinstance(v, int) and not is_symbolic(v):
        return v
    f = _sym_floor(v)
    d = v - f
    if d < 0.5:
        return f
    if d > 0.5:
        return f + 1
    return f if f % 2 == 0 else f + 1


NP = SymNP()
NP_OBJ = SymNP()
NP_OBJ.zeros_object = True
NP_OBJ_SV = SymNP()
NP_OBJ_SV.zeros_object = True
NP_OBJ_SV.structured_view = True


def install(modules=("partitura.score",)):
    import importlib

    for m in modules:
        if m.endswith("!!"):  # "module!!" : like "module!", and structured object tables are SymArray views
            importlib.import_module(m[:-2]).np = NP_OBJ_SV
        elif m.endswith("!"):  # "module!" : float zeros()/ones() become object arrays under symbolic execution
            importlib.import_module(m[:-1]).np = NP_OBJ
        else:
            importlib.import_module(m).np = NP
