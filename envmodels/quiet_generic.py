"""Logging stub: `partitura.utils.generic` formats warnings about unresolved references with the time
points involved (`dedent(...).format(...)` + warnings.warn).  The text is never inspected by the code under
analysis, but dedent's regex and the warnings registry (hashing the message) realise every symbolic time in
it.  Under symbolic execution `dedent` is the identity and `warnings.warn` does nothing; concrete runs keep the
real functions."""


class _Quiet:
    def __init__(self, real):
        self._real = real

    def __getattr__(self, name):
        return getattr(self._real, name)

    def warn(self, *a, **k):
        from engine.sym import _ACTIVE

        if _ACTIVE["symbolic"]:
            return None
        return self._real.warn(*a, **k)


def install():
    import partitura.utils.generic as G
    import partitura.score as S

    real_dedent = G.dedent

    def dedent(s):
        from engine.sym import _ACTIVE

        return s if _ACTIVE["symbolic"] else real_dedent(s)

    G.dedent = dedent
    G.warnings = _Quiet(G.warnings)
    S.warnings = _Quiet(S.warnings)
    import partitura.utils.music as M

    M.warnings = _Quiet(M.warnings)
