"""Pure-Python model of scipy.interpolate.PPoly (evaluation only, extrapolate=True).

Environment model installed as the module global ``partitura.score.PPoly``.
p(x) = sum_m c[m, i] * (x - x[i])**(k - m) on x[i] <= x < x[i+1]; outside the
breakpoints the first / last piece is extended (scipy's default extrapolation).
"""
import numpy as _np

from .symnp import SymArray, has_sym
from engine.sym import is_symbolic


class SymPPoly:
    def __init__(self, c, x, extrapolate=None, axis=0):
        self.c = [list(r) for r in (_np.asarray(c).tolist() if not isinstance(c, list) else c)]
        self.x = list(x.tolist() if isinstance(x, _np.ndarray) else x)
        if len(self.c[0]) != len(self.x) - 1:
            raise ValueError("number of coefficients != len(x)-1")

    def _one(self, q):
        n = len(self.x)
        i = 0
        while i + 1 < n - 1 and self.x[i + 1] <= q:
            i += 1
        d = q - self.x[i]
        k = len(self.c) - 1
        v = 0
        for m in range(k + 1):
            term = self.c[m][i]
            for _ in range(k - m):
                term = term * d
            v = v + term
        return v

    def __call__(self, xq, nu=0, extrapolate=None):
        scalar = not isinstance(xq, (list, tuple, _np.ndarray)) or (isinstance(xq, _np.ndarray) and xq.ndim == 0)
        qs = [xq.item() if isinstance(xq, _np.ndarray) else xq] if scalar else (xq.tolist() if isinstance(xq, _np.ndarray) else list(xq))
        out = [self._one(q) for q in qs]
        sym = has_sym(out) or has_sym(qs) or has_sym(self.x) or any(is_symbolic(v) for v in out)
        a = _np.empty((len(out),), dtype=object if sym else float)
        for j, v in enumerate(out):
            a[j] = v
        if scalar:
            a = a.reshape(())
        return a.view(SymArray) if sym else a


def install():
    import partitura.score as S

    S.PPoly = SymPPoly
