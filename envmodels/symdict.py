"""Association-list model of dict / collections.defaultdict.

Environment model: builtin dicts hash their keys, and hashing a CrossHair
proxy realises it (the solver then enumerates that number).  This model finds
keys with ``==`` instead, which forks the path symbolically.  Iteration order
is insertion order, like dict.  Installed as the module global ``defaultdict``
of partitura modules that key dictionaries by timeline times.
"""
from __future__ import annotations


def _is_sym(v):
    from engine.sym import is_symbolic

    if is_symbolic(v):
        return True
    if isinstance(v, tuple):
        return any(_is_sym(x) for x in v)
    return False


class _NoTrace:
    """context manager: tracing off while symbolic execution is active (for bookkeeping on concrete keys)."""

    def __enter__(self):
        from engine.sym import _ACTIVE

        self.cm = None
        if _ACTIVE["symbolic"]:
            from crosshair.tracers import NoTracing

            self.cm = NoTracing()
            self.cm.__enter__()

    def __exit__(self, *a):
        if self.cm is not None:
            self.cm.__exit__(*a)
        return False


def _new_index():
    with _NoTrace():
        return dict()


import numpy as _np


def _is_number(v):
    return isinstance(v, (int, float, _np.number))  # np.int64 is not an int, but equals one as a dict key


def _numberish(v):
    return _is_number(v) or (isinstance(v, tuple) and any(_numberish(x) for x in v))


class SymDict:
    """insertion-ordered mapping: concrete hashable keys are indexed by a builtin dict (fast path, no
    comparisons), keys that are or contain symbolic numbers are found with == (forks the path)."""

    def __init__(self, *a, **k):
        self._k = []
        self._v = []
        self._idx = _new_index()      # concrete key -> position (builtin dict, touched only with tracing off)
        self._symk = []     # positions of symbolic keys
        if a:
            src = a[0]
            items = src.items() if hasattr(src, "items") else src
            for kk, vv in items:
                self[kk] = vv
        for kk, vv in k.items():
            self[kk] = vv

    def _find(self, key):
        if not _is_sym(key):
            pos = -1
            unhashable = False
            with _NoTrace():
                try:
                    pos = self._idx.get(key, -1)
                except TypeError:
                    unhashable = True
            if unhashable:
                for i, kk in enumerate(self._k):
                    if kk is key:
                        return i
            if pos >= 0:
                return pos
            if self._symk and _numberish(key):
                for i in self._symk:
                    if self._k[i] == key:
                        return i
            return -1
        for i, kk in enumerate(self._k):
            if kk is key:
                return i
        for i, kk in enumerate(self._k):
            if i in self._symk or _numberish(kk):
                if kk == key:
                    return i
        return -1

    def _reindex(self):
        self._idx = _new_index()
        self._symk = []
        for i, kk in enumerate(self._k):
            if _is_sym(kk):
                self._symk.append(i)
            else:
                with _NoTrace():
                    try:
                        self._idx[kk] = i
                    except TypeError:
                        pass

    def __missing__(self, key):
        raise KeyError(key)

    def _fast(self, key):
        """(decided, position) for concrete hashable keys without touching the tracer. Call with tracing off."""
        t = type(key)
        m = getattr(t, "__module__", "")
        if (isinstance(m, str) and m.startswith("crosshair")) or t is tuple:
            return False, -1
        try:
            pos = self._idx.get(key, -1)
        except TypeError:
            return False, -1
        if pos >= 0:
            return True, pos
        if self._symk and _is_number(key):
            return False, -1  # may equal a symbolic key: slow path
        return True, -1

    def __getitem__(self, key):
        with _NoTrace():
            decided, pos = self._fast(key)
            if decided and pos >= 0:
                return self._v[pos]
            if decided and type(self).__missing__ is SymDefaultDict.__missing__ and self.default_factory is not None \
                    and getattr(self.default_factory, "__module__", "").startswith("partitura"):
                # concrete new key of a defaultdict whose factory is a plain partitura container (_OrderedSet)
                v = self.default_factory()
                self._k.append(key)
                self._v.append(v)
                self._idx[key] = len(self._k) - 1
                return v
        i = self._find(key)
        if i < 0:
            return self.__missing__(key)
        return self._v[i]

    def __setitem__(self, key, value):
        i = self._find(key)
        if i < 0:
            self._k.append(key)
            self._v.append(value)
            if _is_sym(key):
                self._symk.append(len(self._k) - 1)
            else:
                with _NoTrace():
                    try:
                        self._idx[key] = len(self._k) - 1
                    except TypeError:
                        pass
        else:
            self._v[i] = value

    def __delitem__(self, key):
        i = self._find(key)
        if i < 0:
            raise KeyError(key)
        del self._k[i]
        del self._v[i]
        self._reindex()

    def __contains__(self, key):
        return self._find(key) >= 0

    def __len__(self):
        return len(self._k)

    def __iter__(self):
        return iter(list(self._k))

    def __bool__(self):
        return len(self._k) > 0

    def keys(self):
        return list(self._k)

    def values(self):
        return list(self._v)

    def items(self):
        return list(zip(self._k, self._v))

    def get(self, key, default=None):
        i = self._find(key)
        return default if i < 0 else self._v[i]

    def pop(self, key, *default):
        i = self._find(key)
        if i < 0:
            if default:
                return default[0]
            raise KeyError(key)
        v = self._v[i]
        del self._k[i]
        del self._v[i]
        self._reindex()
        return v

    def setdefault(self, key, default=None):
        i = self._find(key)
        if i < 0:
            self[key] = default
            return default
        return self._v[i]

    def update(self, other=(), **k):
        items = other.items() if hasattr(other, "items") else other
        for kk, vv in items:
            self[kk] = vv
        for kk, vv in k.items():
            self[kk] = vv

    def clear(self):
        self._k = []
        self._v = []
        self._idx = _new_index()
        self._symk = []

    def copy(self):
        c = type(self).__new__(type(self))
        c.__dict__.update(self.__dict__)
        c._k = list(self._k)
        c._v = list(self._v)
        with _NoTrace():
            c._idx = dict(self._idx)
        c._symk = list(self._symk)
        return c

    def __eq__(self, other):
        if not hasattr(other, "items"):
            return NotImplemented
        o = list(other.items())
        if len(o) != len(self._k):
            return False
        for kk, vv in o:
            i = self._find(kk)
            if i < 0 or not (self._v[i] == vv):
                return False
        return True

    def __repr__(self):
        return "SymDict(%r)" % (self.items(),)


class SymDefaultDict(SymDict):
    def __init__(self, default_factory=None, *a, **k):
        self.default_factory = default_factory
        super().__init__(*a, **k)

    def __missing__(self, key):
        if self.default_factory is None:
            raise KeyError(key)
        v = self.default_factory()
        self[key] = v
        return v


class SymDictSub(dict):
    """dict subclass (passes isinstance(x, dict)) whose content lives in a SymDict: for mappings that the code
    under analysis probes with a symbolic key (PerformedPart.note_array calls note.get(<tick>, default))."""

    def __init__(self, *a, **k):
        dict.__init__(self)
        self._m = SymDict(*a, **k)

    def __getitem__(self, key):
        return self._m[key]

    def __setitem__(self, key, value):
        self._m[key] = value

    def __delitem__(self, key):
        del self._m[key]

    def __contains__(self, key):
        return key in self._m

    def __len__(self):
        return len(self._m)

    def __iter__(self):
        return iter(self._m)

    def get(self, key, default=None):
        return self._m.get(key, default)

    def keys(self):
        return self._m.keys()

    def values(self):
        return self._m.values()

    def items(self):
        return self._m.items()

    def pop(self, key, *d):
        return self._m.pop(key, *d)

    def setdefault(self, key, default=None):
        return self._m.setdefault(key, default)

    def update(self, other=(), **k):
        self._m.update(other, **k)

    def copy(self):
        return SymDictSub(self._m.items())

    def __eq__(self, other):
        return self._m == other

    def __repr__(self):
        return "SymDictSub(%r)" % (self._m.items(),)


def install():
    import partitura.score as S

    S.defaultdict = SymDefaultDict
