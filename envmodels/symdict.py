"""Association-list model of dict / collections.defaultdict.

Environment model: builtin dicts hash their keys, and hashing a CrossHair
proxy realises it (the solver then enumerates that number).  This model finds
keys with ``==`` instead, which forks the path symbolically.  Iteration order
is insertion order, like dict.  Installed as the module global ``defaultdict``
of partitura modules that key dictionaries by timeline times.
"""
from __future__ import annotations


class SymDict:
    def __init__(self, *a, **k):
        self._k = []
        self._v = []
        if a:
            src = a[0]
            items = src.items() if hasattr(src, "items") else src
            for kk, vv in items:
                self[kk] = vv
        for kk, vv in k.items():
            self[kk] = vv

    def _find(self, key):
        for i, kk in enumerate(self._k):
            if kk is key:
                return i
        for i, kk in enumerate(self._k):
            try:
                if kk == key:
                    return i
            except Exception:
                pass
        return -1

    def __missing__(self, key):
        raise KeyError(key)

    def __getitem__(self, key):
        i = self._find(key)
        if i < 0:
            return self.__missing__(key)
        return self._v[i]

    def __setitem__(self, key, value):
        i = self._find(key)
        if i < 0:
            self._k.append(key)
            self._v.append(value)
        else:
            self._v[i] = value

    def __delitem__(self, key):
        i = self._find(key)
        if i < 0:
            raise KeyError(key)
        del self._k[i]
        del self._v[i]

    def __contains__(self, key):
        return self._find(key) >= 0

    def __len__(self):
        return len(self._k)

    def __iter__(self):
        return iter(list(self._k))

    def __bool__(self):
        return len(self._k) > 0

    def keys(self):
        return list(self._k)

    def values(self):
        return list(self._v)

    def items(self):
        return list(zip(self._k, self._v))

    def get(self, key, default=None):
        i = self._find(key)
        return default if i < 0 else self._v[i]

    def pop(self, key, *default):
        i = self._find(key)
        if i < 0:
            if default:
                return default[0]
            raise KeyError(key)
        v = self._v[i]
        del self._k[i]
        del self._v[i]
        return v

    def setdefault(self, key, default=None):
        i = self._find(key)
        if i < 0:
            self[key] = default
            return default
        return self._v[i]

    def update(self, other=(), **k):
        items = other.items() if hasattr(other, "items") else other
        for kk, vv in items:
            self[kk] = vv
        for kk, vv in k.items():
            self[kk] = vv

    def clear(self):
        self._k = []
        self._v = []

    def copy(self):
        c = type(self).__new__(type(self))
        c.__dict__.update(self.__dict__)
        c._k = list(self._k)
        c._v = list(self._v)
        return c

    def __eq__(self, other):
        if not hasattr(other, "items"):
            return NotImplemented
        o = list(other.items())
        if len(o) != len(self._k):
            return False
        for kk, vv in o:
            i = self._find(kk)
            if i < 0 or not (self._v[i] == vv):
                return False
        return True

    def __repr__(self):
        return "SymDict(%r)" % (self.items(),)


class SymDefaultDict(SymDict):
    def __init__(self, default_factory=None, *a, **k):
        self.default_factory = default_factory
        super().__init__(*a, **k)

    def __missing__(self, key):
        if self.default_factory is None:
            raise KeyError(key)
        v = self.default_factory()
        self[key] = v
        return v


def install():
    import partitura.score as S

    S.defaultdict = SymDefaultDict
