"""symdict installed as the `defaultdict` global of partitura.utils.music (cell-keyed tables of the piano roll)."""
from .symdict import SymDefaultDict


def install():
    import partitura.utils.music as M

    M.defaultdict = SymDefaultDict
