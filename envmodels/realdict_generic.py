"""Work-around for a CrossHair modelling deviation, not a model of partitura.

Under tracing CrossHair replaces ``dict(x)`` by its ShellMutableMap, whose
``items()`` view re-yields a key when a value is re-assigned during iteration
(CPython allows same-size mutation while iterating).  `generic.partition`
returns ``dict(result)`` and `save_score_midi` relies on that CPython
behaviour, so the ``dict`` global of partitura.utils.generic is bound to a
constructor that builds the builtin dict with tracing switched off (keys there
are Part objects / concrete values, never symbolic numbers).
"""


def _real_dict(*a, **k):
    from engine.sym import _ACTIVE

    if _ACTIVE["symbolic"]:
        from crosshair.tracers import NoTracing

        with NoTracing():
            return dict(*a, **k)
    return dict(*a, **k)


def install():
    import partitura.utils.generic as G

    G.dict = _real_dict
