"""Dictionary-of-keys model of scipy.sparse.csc_matrix((data, (rows, cols)), shape, dtype).

Environment model installed as the module global ``csc_matrix`` of
partitura.utils.music when symbolic values may reach it.  Keeps entries as a
list of (row, col, value); duplicate coordinates are summed (scipy semantics);
coordinates outside ``shape`` raise ValueError like scipy.  Supports ``shape``,
row-range slicing ``m[a:b, :]`` and ``entries()`` (used by the harness oracle);
``toarray`` only for concrete content.
"""
import numpy as _np


class SymCSC:
    def __init__(self, arg, shape=None, dtype=None):
        data, (rows, cols) = arg
        data = data.tolist() if isinstance(data, _np.ndarray) else list(data)
        rows = rows.tolist() if isinstance(rows, _np.ndarray) else list(rows)
        cols = cols.tolist() if isinstance(cols, _np.ndarray) else list(cols)
        self.shape = (shape[0], shape[1])
        self._e = []
        for v, r, c in zip(data, rows, cols):
            if r < 0 or c < 0:
                raise ValueError("negative axis index found")
            if r >= self.shape[0]:
                raise ValueError("axis 0 index exceeds matrix dimension")
            if c >= self.shape[1]:
                raise ValueError("axis 1 index exceeds matrix dimension")
            if dtype is int:
                v = int(v)
            hit = None
            for k, (rr, cc, vv) in enumerate(self._e):
                if rr == r and cc == c:
                    hit = k
                    break
            if hit is None:
                self._e.append((r, c, v))
            else:
                self._e[hit] = (r, c, self._e[hit][2] + v)

    def entries(self):
        return list(self._e)

    def __getitem__(self, key):
        rs, cs = key
        if not (isinstance(rs, slice) and isinstance(cs, slice) and cs == slice(None)):
            raise NotImplementedError("symsparse: only m[a:b, :] is modelled")
        a, b, step = rs.indices(self.shape[0]) if not _is_sym(self.shape[0]) else (rs.start or 0, min(rs.stop, self.shape[0]) if rs.stop is not None else self.shape[0], 1)
        out = SymCSC.__new__(SymCSC)
        n = b - a
        out.shape = (n if n > 0 else 0, self.shape[1])
        out._e = [(r - a, c, v) for (r, c, v) in self._e if r >= a and r < b]
        return out

    def toarray(self):
        m = _np.zeros(self.shape, dtype=int)
        for r, c, v in self._e:
            m[r, c] = v
        return m


def _is_sym(v):
    from engine.sym import is_symbolic

    return is_symbolic(v)


def entries_of(m):
    """(row, col, value) triples of non-zero cells of a model or a real scipy matrix."""
    if isinstance(m, SymCSC):
        return [(r, c, v) for (r, c, v) in m.entries()]
    coo = m.tocoo()
    return [(int(r), int(c), int(v)) for r, c, v in zip(coo.row, coo.col, coo.data) if v != 0]


def install():
    import partitura.utils.music as M

    M.csc_matrix = SymCSC
