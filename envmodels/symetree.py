"""Minimal element-tree model behind the lxml `etree` global of partitura.io.exportmusicxml.

Environment model: lxml's C elements only accept real `str` text and cannot hold CrossHair's symbolic
strings; the exporter uses four entry points only (Element, SubElement, Comment, tostring).  `El`
implements the element protocol the exporter relies on (tag, attrib, text, insert/append/extend, find,
findall, iteration, len).  Serialisation is NOT modelled: `tostring` raises, the harness interprets the tree.
"""


class El:
    def __init__(self, tag, attrib=None, **extra):
        self.tag = tag
        self.attrib = dict(attrib or {})
        self.attrib.update(extra)
        self.text = None
        self.tail = None
        self._children = []

    def append(self, e):
        self._children.append(e)

    def extend(self, es):
        for e in es:
            self._children.append(e)

    def insert(self, i, e):
        self._children.insert(i, e)

    def remove(self, e):
        self._children.remove(e)

    def __iter__(self):
        return iter(list(self._children))

    def __len__(self):
        return len(self._children)

    def __getitem__(self, i):
        return self._children[i]

    def get(self, k, default=None):
        return self.attrib.get(k, default)

    def set(self, k, v):
        self.attrib[k] = v

    def find(self, tag):
        for c in self._children:
            if c.tag == tag:
                return c
        return None

    def findall(self, tag):
        return [c for c in self._children if c.tag == tag]

    def iter(self, tag=None):
        if tag is None or self.tag == tag:
            yield self
        for c in self._children:
            yield from c.iter(tag)

    def __repr__(self):
        return "<El %s>" % self.tag


class _Etree:
    Element = El

    @staticmethod
    def SubElement(parent, tag, attrib=None, **extra):
        e = El(tag, attrib, **extra)
        parent.append(e)
        return e

    @staticmethod
    def Comment(text=None):
        e = El("#comment")
        e.text = text
        return e

    @staticmethod
    def tostring(*a, **k):
        raise NotImplementedError("symetree: serialisation is not modelled")


def install():
    import partitura.io.exportmusicxml as EX
    from .symdict import SymDefaultDict

    EX.etree = _Etree
    EX.defaultdict = SymDefaultDict
