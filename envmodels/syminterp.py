"""Pure-Python model of scipy.interpolate.interp1d (kinds 'linear', 'previous').

Environment model, not a model of partitura: installed as the module global
``partitura.utils.generic.sc_interp1d`` so that partitura's own wrapper
``generic.interp1d`` and every map built on it execute unchanged while x, y and
the query stay symbolic (scipy's C/NumPy kernels reject CrossHair proxies).

Semantics follow scipy 1.18 ``_interpolate.interp1d``:
  * x is sorted (stable) unless assume_sorted, y permuted along ``axis``;
  * 'linear'  : i = clip(searchsorted_left(x, q), 1, n-1);
                y = (y[i-1]*(x[i]-q) + y[i]*(q-x[i-1])) / (x[i]-x[i-1])
                (algebraically equal to both scipy code paths; they differ in
                float rounding only, compared with tolerance in validation);
  * 'previous': i = clip(#{x_j <= q}, 1, n); y[i-1];  "extrapolate" means
                below -> nan, above -> y[-1] (scipy rewrites it that way);
  * out of range: bounds_error -> ValueError, else fill_value (pair or single),
                "extrapolate" for linear uses the clipped segment.
Scalar queries return a 0-d array, sequences a 1-d array (2-d for 2-d y),
like scipy.  Results are object arrays when symbolic values are involved and
float arrays otherwise.
"""
from __future__ import annotations

import numpy as _np

from engine.sym import is_symbolic

NAN = float("nan")


def _any_symbolic(seq):
    for v in seq:
        if isinstance(v, (list, tuple)):
            if _any_symbolic(v):
                return True
        elif isinstance(v, _np.ndarray):
            if v.dtype == object and _any_symbolic(v.ravel().tolist()):
                return True
        elif is_symbolic(v):
            return True
    return False


def _tolist(a):
    if isinstance(a, _np.ndarray):
        return a.tolist()
    if isinstance(a, (list, tuple)):
        return [_tolist(v) if isinstance(v, (list, tuple, _np.ndarray)) else v for v in a]
    return a


class SymInterp1d:
    def __init__(self, x, y, kind="linear", axis=-1, copy=True, bounds_error=None,
                 fill_value=NAN, assume_sorted=False):
        if kind not in ("linear", "previous"):
            raise NotImplementedError("syminterp: kind %r not modelled" % (kind,))
        xs = list(_tolist(x))
        ya = _tolist(y)
        self.y_ndim = 1
        if len(ya) > 0 and isinstance(ya[0], list):
            self.y_ndim = 2
            yarr_shape0 = len(ya)
            if axis % 2 != 0:
                raise NotImplementedError("syminterp: 2-d y only with axis=0 (all partitura uses)")
            rows = [list(r) for r in ya]  # rows indexed by x
        else:
            rows = list(ya)
        if len(xs) != len(rows):
            raise ValueError("x and y arrays must be equal in length along interpolation axis.")
        if len(xs) < 2:
            raise ValueError("x and y arrays must have at least 2 entries")
        if not assume_sorted:
            # stable insertion sort by x (comparisons fork under symbolic execution)
            idx = list(range(len(xs)))
            for i in range(1, len(idx)):
                j = i
                while j > 0 and xs[idx[j - 1]] > xs[idx[j]]:
                    idx[j - 1], idx[j] = idx[j], idx[j - 1]
                    j -= 1
            xs = [xs[i] for i in idx]
            rows = [rows[i] for i in idx]
        self.x = xs
        self.rows = rows
        self.kind = kind
        self.extrapolate = isinstance(fill_value, str) and fill_value == "extrapolate"
        if self.extrapolate and bounds_error:
            raise ValueError("Cannot extrapolate and raise at the same time.")
        if self.extrapolate:
            self.bounds_error = False
            if kind == "previous":
                self.extrapolate = False
                self.fill = (self._nan_like(), rows[-1])
        else:
            self.bounds_error = True if bounds_error is None else bounds_error
            if isinstance(fill_value, tuple) and len(fill_value) == 2:
                self.fill = (self._bc(fill_value[0]), self._bc(fill_value[1]))
            else:
                self.fill = (self._bc(fill_value), self._bc(fill_value))
        self.symbolic_data = _any_symbolic(xs) or _any_symbolic(rows)

    def _nan_like(self):
        if self.y_ndim == 2:
            return [NAN] * len(self.rows[0])
        return NAN

    def _bc(self, v):
        v = _tolist(v)
        if self.y_ndim == 2:
            if isinstance(v, list):
                if len(v) == 1:
                    return [v[0]] * len(self.rows[0])
                return list(v)
            return [v] * len(self.rows[0])
        if isinstance(v, list):
            if len(v) != 1:
                raise ValueError("fill_value must be either 'extrapolate' or broadcastable")
            return v[0]
        return v

    def _row_lin(self, lo, hi, q):
        x_lo, x_hi = self.x[lo], self.x[hi]
        d = x_hi - x_lo
        if self.y_ndim == 2:
            return [(a * (x_hi - q) + b * (q - x_lo)) / d for a, b in zip(self.rows[lo], self.rows[hi])]
        return (self.rows[lo] * (x_hi - q) + self.rows[hi] * (q - x_lo)) / d

    def _one(self, q):
        n = len(self.x)
        if not self.extrapolate:
            if q < self.x[0]:
                if self.bounds_error:
                    raise ValueError("A value in x_new is below the interpolation range.")
                return self.fill[0]
            if q > self.x[-1]:
                if self.bounds_error:
                    raise ValueError("A value in x_new is above the interpolation range.")
                return self.fill[1]
        if self.kind == "linear":
            i = 0
            while i < n and self.x[i] < q:  # searchsorted side=left
                i += 1
            i = min(max(i, 1), n - 1)
            # both scipy code paths (np.interp / de Boor form) are exact at the knots
            if q == self.x[i]:
                return self.rows[i]
            if q == self.x[i - 1]:
                return self.rows[i - 1]
            return self._row_lin(i - 1, i, q)
        # previous
        i = 0
        while i < n and self.x[i] <= q:
            i += 1
        i = min(max(i, 1), n)
        return self.rows[i - 1]

    def __call__(self, x_new):
        scalar = False
        if isinstance(x_new, _np.ndarray):
            if x_new.ndim == 0:
                scalar = True
                qs = [x_new.item()]
            else:
                qs = x_new.tolist()
        elif isinstance(x_new, (list, tuple)):
            qs = list(x_new)
        else:
            scalar = True
            qs = [x_new]
        out = [self._one(q) for q in qs]
        sym = self.symbolic_data or _any_symbolic(qs) or _any_symbolic(out)
        dt = object if sym else float
        res = self._pack(scalar, out, dt)
        if sym:
            from .symnp import SymArray

            res = res.view(SymArray)  # keeps .astype(int) symbolic
        return res

    def _pack(self, scalar, out, dt):
        if scalar:
            res = _np.empty((), dtype=dt) if self.y_ndim == 1 else None
            if self.y_ndim == 1:
                res[()] = out[0]
                return res
            a = _np.empty((len(out[0]),), dtype=dt)
            for k, v in enumerate(out[0]):
                a[k] = v
            return a
        if self.y_ndim == 1:
            a = _np.empty((len(out),), dtype=dt)
            for k, v in enumerate(out):
                a[k] = v
            return a
        a = _np.empty((len(out), len(self.rows[0])), dtype=dt)
        for k, row in enumerate(out):
            for c, v in enumerate(row):
                a[k, c] = v
        return a


def install():
    import partitura.utils.generic as G

    G.sc_interp1d = SymInterp1d
