"""symdict installed as the `defaultdict` global of partitura.io.exportmidi (tick-keyed event tables)."""
from .symdict import SymDefaultDict


def install():
    import partitura.io.exportmidi as EM

    EM.defaultdict = SymDefaultDict
