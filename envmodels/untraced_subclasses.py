"""Run partitura's own `iter_subclasses` with CrossHair's tracer switched off.

Not a model: the real function is executed, on concrete class objects only (no
symbolic value can reach it).  `Part.iter_all(cls=None)` walks every subclass
of `object` in the interpreter; under tracing CrossHair models the `_seen` set
by a chain of lazy set objects whose membership test recurses once per element
(thousands of classes), which exhausts the stack / takes minutes.
"""


def install():
    import partitura.score as S
    import partitura.utils.generic as G

    real = G.iter_subclasses

    def untraced(cls, _seen=None):
        from engine.sym import _ACTIVE

        if _ACTIVE["symbolic"]:
            from crosshair.tracers import NoTracing

            with NoTracing():
                return list(real(cls, _seen))
        return real(cls, _seen)

    S.iter_subclasses = untraced
