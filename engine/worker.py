"""Worker process: one obligation (harness x instance) in one mode.

  symbolic : install env models, symbolic execution via engine.sym.explore
  models   : concrete run(s) with env models installed   (model validation)
  real     : concrete run(s) with the real libraries      (replay / validation)

Input on argv[1]: JSON job; output: one JSON document on the last stdout line
prefixed by ``@@RESULT@@``.
"""
from __future__ import annotations

import importlib
import json
import os
import sys
import time
import warnings


def main():
    job = json.loads(sys.argv[1])
    mode = job["mode"]
    os.environ["VERIF_MODE"] = "symbolic" if mode == "symbolic" else "concrete"
    warnings.filterwarnings("ignore")
    root = os.path.dirname(os.path.dirname(os.path.abspath(__file__)))
    if root not in sys.path:
        sys.path.insert(0, root)
    sys.setrecursionlimit(10000)
    from engine import sym
    from engine.hdef import KnownFindingRegion

    mod = importlib.import_module(job["module"])
    h = next(x for x in mod.HARNESSES if x.name == job["harness"])
    if mode in ("symbolic", "models"):
        for m in h.models:
            name, _, arg = m.partition(":")
            inst = importlib.import_module("envmodels." + name).install
            inst(tuple(arg.split(","))) if arg else inst()
    fn = h.make(**job.get("params", {}))
    out = {"mode": mode}
    t0 = time.time()
    if mode == "symbolic":
        out.update(sym.explore(fn, budget_s=job["budget"], per_path_timeout=job.get("ppt", 20.0),
                               seed=job.get("seed", 0), reals_only=h.reals_only, lazy_format=h.lazy_format))
    else:
        runs = []
        for args in job["vectors"]:
            args = sym.unjson(args)
            try:
                status, payload = sym.run_concrete(fn, args)
            except KnownFindingRegion as e:
                status, payload = "known-region", str(e)
            runs.append({"status": status, "payload": payload})
        out["runs"] = runs
    out["wall_total_s"] = round(time.time() - t0, 3)
    sys.stdout.write("\n@@RESULT@@" + json.dumps(out) + "\n")
    sys.stdout.flush()


if __name__ == "__main__":
    main()
