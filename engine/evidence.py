"""Evidence writer: /verif/evidence/<id>.json + replay files + verdict lines."""
from __future__ import annotations

import json
import os

ROOT = os.path.dirname(os.path.dirname(os.path.abspath(__file__)))
EVID = os.path.join(ROOT, "evidence")
REPLAY = os.path.join(EVID, "replay")


def write_evidence(pid, tier, seed, mod, results, kf_lines, kf_errors, wall_s):
    os.makedirs(REPLAY, exist_ok=True)
    lines = []
    n_ob = len(results)
    confirmed = [r for r in results if r["status"] == "confirmed"]
    inconcl = [r for r in results if r["status"] == "inconclusive"]
    viol = [r for r in results if r["status"] == "violation"]
    herr = [r for r in results if r["status"] == "harness-error"]
    paths = sum(r.get("symbolic", {}).get("paths", 0) for r in results) + sum(r.get("queries", 0) for r in results if "symbolic" not in r)
    reached = sum(r.get("symbolic", {}).get("reached_end", 0) for r in results) + sum(r.get("nontrivial", 0) for r in results if "symbolic" not in r)
    queries = sum(r.get("symbolic", {}).get("solver_queries", 0) for r in results) + sum(r.get("queries", 0) for r in results if "symbolic" not in r)
    solver_s = sum(r.get("symbolic", {}).get("solver_s", 0.0) for r in results) + sum(r.get("solver_s", 0.0) for r in results if "symbolic" not in r)
    cpu_s = sum(r.get("symbolic", {}).get("cpu_s", 0.0) for r in results)
    validated = sum(r.get("validated_vectors", 0) for r in results)
    samples = []
    for r in results:
        s = r.get("symbolic", {})
        w = s.get("witnesses") or []
        if w:
            samples.append({"harness": r["harness"], "params": r.get("params"), "status": r["status"],
                            "paths": s.get("paths"), "reach_witness": w[0]})
        elif "sample" in r:
            samples.append({"harness": r["harness"], "params": r.get("params"), "status": r["status"],
                            "query": r["sample"]})
        if len(samples) >= 12:
            break
    functions, bounds, outside, models = [], [], [], []
    for h in getattr(mod, "HARNESSES", []):
        functions += [f for f in h.functions if f not in functions]
        if h.bounds:
            bounds.append("%s: %s" % (h.name, h.bounds))
        if h.outside:
            outside.append("%s: %s" % (h.name, h.outside))
        models += [m for m in h.models if m not in models]
    for e in getattr(mod, "EXTRA_INFO", []):
        functions += [f for f in e.get("functions", []) if f not in functions]
        if e.get("bounds"):
            bounds.append("%s: %s" % (e["name"], e["bounds"]))
        if e.get("outside"):
            outside.append("%s: %s" % (e["name"], e["outside"]))
    per_ob = []
    for r in results:
        s = r.get("symbolic", {})
        per_ob.append({
            "harness": r["harness"], "params": r.get("params"), "status": r["status"],
            "engine": r.get("engine", "A"),
            "paths": s.get("paths", r.get("queries")), "reached_end": s.get("reached_end", r.get("nontrivial")),
            "unknown_paths": s.get("unknown_paths"), "unknown_reasons": s.get("unknown_reasons"),
            "stop": s.get("stop"), "cpu_s": s.get("cpu_s", r.get("solver_s")),
            "solver_queries": s.get("solver_queries", r.get("queries")), "solver_s": s.get("solver_s", r.get("solver_s")),
            "detail": r.get("detail"),
        })
    rc = 0
    for i, r in enumerate(viol):
        path = os.path.join(REPLAY, "%s_%d.json" % (pid, i))
        with open(path, "w") as f:
            json.dump(r["replay"], f, indent=1)
        lines.append("VIOLATION property=%s replay=%s" % (pid, path))
        lines.append("  harness=%s params=%s args=%s -> %s" % (
            r["harness"], json.dumps(r.get("params")), json.dumps(r["replay"]["args"]),
            str(r["replay"]["real_outcome"].get("payload"))[:400]))
        rc = 1
    for r in herr:
        lines.append("HARNESS-ERROR property=%s harness=%s params=%s: %s" % (
            pid, r["harness"], json.dumps(r.get("params")), (r.get("detail") or "")[:1500]))
    for e in kf_errors:
        lines.append("HARNESS-ERROR property=%s %s" % (pid, e))
    if (herr or kf_errors) and rc == 0:
        rc = 2
    lines.extend(kf_lines)
    expl = (
        "Bounded symbolic execution of the real partitura functions (CrossHair 0.0.110 + z3) and direct SMT "
        "queries generated from the live source; every obligation is one harness instance whose path tree is "
        "explored until exhausted ('confirmed' = all feasible paths within the stated bounds executed, none "
        "violates the assertion, and at least one path reaches the assertion = reachability witness), refuted "
        "(solver model replayed on the unmodified libraries before it is reported) or out of budget "
        "('inconclusive', not counted as discharged). obligations=%d discharged=%d inconclusive=%d "
        "violations=%d harness_errors=%d; paths=%d solver_queries=%d solver_s=%.1f cpu_s=%.0f; "
        "model-vs-real validation vectors=%d." % (
            n_ob, len(confirmed), len(inconcl), len(viol), len(herr), paths, queries, solver_s, cpu_s, validated))
    ev = {
        "property_id": pid,
        "tier": tier,
        "seed": seed,
        "level": "other",
        "coverage": {
            "explanation": expl,
            "obligations": n_ob,
            "discharged": len(confirmed),
            "inconclusive": len(inconcl),
            "evaluations": max(paths, 1),
            "distinct_nontrivial": reached,
            "rule": "one evaluation = one execution path of a harness under symbolic inputs (or one SMT query of "
                    "engines B/C); paths are distinct by construction (each is a different branch of the path tree); "
                    "non-trivial = the path satisfied all preconditions and reached the property assertion",
            "samples": samples or [{"note": "no witness recorded"}],
            "exhaustive": len(confirmed) == n_ob and n_ob > 0,
            "functions_encoded": functions,
            "bounds": bounds,
            "outside_bounds": outside,
            "solver_queries": queries,
            "solver_seconds": round(solver_s, 2),
            "cpu_seconds": round(cpu_s, 1),
            "checker_cmd": "./vcheck %s --tier %s" % (pid, tier),
            "trusted_base": ["CPython 3.12", "CrossHair 0.0.110 tracer and proxies", "z3 4.x (z3-solver wheel)",
                             "numpy object-array semantics"] + ["envmodels." + m for m in models],
            "obligation_results": per_ob,
            "known_findings_reported": kf_lines,
        },
        "assumptions": [
            "floats are modelled as reals in engine A (rounding is decided separately by engine B where stated)",
            "environment models (%s) stand in for scipy/numpy C kernels; validated against the real libraries on "
            "the reach witnesses of every obligation on every run" % (", ".join(models) or "none"),
            "claims hold within the bounds listed in coverage.bounds; coverage.outside_bounds is not claimed",
        ],
        "wall_s": round(wall_s, 2),
        "violations": len(viol),
    }
    os.makedirs(EVID, exist_ok=True)
    with open(os.path.join(EVID, pid + ".json"), "w") as f:
        json.dump(ev, f, indent=1)
    lines.append("%s tier=%s obligations=%d confirmed=%d inconclusive=%d violations=%d harness_errors=%d paths=%d "
                 "solver_queries=%d wall=%.0fs" % (pid, tier, n_ob, len(confirmed), len(inconcl), len(viol),
                                                   len(herr), paths, queries, wall_s))
    for r in inconcl:
        s = r.get("symbolic", {})
        lines.append("  inconclusive: %s %s paths=%s unknown=%s stop=%s" % (
            r["harness"], json.dumps(r.get("params")), s.get("paths"), s.get("unknown_reasons"), s.get("stop")))
    return rc, lines
