#!/bin/sh
# Build /verif/.venv: a venv over /venv's interpreter that also sees /venv's
# site-packages (numpy, scipy, mido, lxml, partitura editable) plus
# crosshair-tool + z3-solver from the offline wheelhouse.  Idempotent.
set -e
HERE="$(cd "$(dirname "$0")/.." && pwd)"
V="$HERE/.venv"
if [ -x "$V/bin/python" ] && "$V/bin/python" -c "import crosshair, z3, numpy, partitura" 2>/dev/null; then
  exit 0
fi
rm -rf "$V"
/venv/bin/python -m venv "$V"
SP="$("$V/bin/python" -c 'import sysconfig; print(sysconfig.get_paths()["purelib"])')"
printf "import site; site.addsitedir('/venv/lib/python3.12/site-packages')\n" > "$SP/_verif_overlay.pth"
PIP_NO_INDEX=1 "$V/bin/python" -m pip install -q --no-index --find-links /opt/veriftools/wheels crosshair-tool z3-solver jsonschema >/dev/null
"$V/bin/python" -c "import crosshair, z3, numpy, partitura; print('verif venv ok', partitura.__file__)"
