"""Scheduler: run all obligations of one property, replay, validate models, write evidence.

Exit codes: 0 = property held on everything explored (known findings printed as
KNOWN-FINDING lines), 1 = VIOLATION (replayed on the real code), 2 = harness
error (non-reproducing counterexample, model/real disagreement, vacuous
harness, crashed worker) -- never a VIOLATION line.
"""
from __future__ import annotations

import concurrent.futures as cf
import importlib
import json
import os
import subprocess
import sys
import time

ROOT = os.path.dirname(os.path.dirname(os.path.abspath(__file__)))
PY = os.path.join(ROOT, ".venv", "bin", "python")
EVID = os.path.join(ROOT, "evidence")
REPLAY = os.path.join(EVID, "replay")

PROPERTY_MODULES = {}  # filled by registry below


def _registry():
    import glob

    out = {}
    for p in sorted(glob.glob(os.path.join(ROOT, "harness", "C[0-9][0-9]_*.py"))):
        name = os.path.basename(p)[:-3]
        out[name[:3]] = "harness." + name
    return out


def _worker(job: dict, wall_timeout: float) -> dict:
    env = dict(os.environ)
    # VERIF_REPO (default: the editable install = /repo) lets the seeded-change runner point the same checks
    # at a scratch worktree; registered commands never set it.
    alt = os.environ.get("VERIF_REPO")
    env["PYTHONPATH"] = ROOT + (os.pathsep + alt if alt else "")
    env.setdefault("PYTHONHASHSEED", "0")
    env["OMP_NUM_THREADS"] = "1"
    env["OPENBLAS_NUM_THREADS"] = "1"
    t0 = time.time()
    try:
        p = subprocess.run([PY, "-m", "engine.worker", json.dumps(job)], cwd=ROOT, env=env,
                           capture_output=True, text=True, timeout=wall_timeout)
    except subprocess.TimeoutExpired:
        return {"mode": job["mode"], "verdict": "unknown", "worker_error": "wall timeout %.0fs" % wall_timeout,
                "paths": 0, "reached_end": 0, "solver_queries": 0, "solver_s": 0.0, "cpu_s": wall_timeout,
                "witnesses": [], "counterexamples": [], "unknown_paths": 0, "unknown_reasons": {"WallTimeout": 1}}
    for line in reversed(p.stdout.splitlines()):
        if line.startswith("@@RESULT@@"):
            r = json.loads(line[len("@@RESULT@@"):])
            r["proc_wall_s"] = round(time.time() - t0, 2)
            return r
    try:
        os.makedirs(os.path.join(EVID, "logs"), exist_ok=True)
        with open(os.path.join(EVID, "logs", "worker_crash_%d.log" % os.getpid()), "a") as f:
            f.write("JOB %s\nRC %s\nSTDERR\n%s\nSTDOUT\n%s\n" % (json.dumps(job)[:500], p.returncode, p.stderr[-20000:], p.stdout[-5000:]))
    except Exception:
        pass
    return {"mode": job["mode"], "verdict": "error", "worker_error": (p.stderr or p.stdout)[-3000:],
            "paths": 0, "reached_end": 0, "solver_queries": 0, "solver_s": 0.0, "cpu_s": 0,
            "witnesses": [], "counterexamples": [], "unknown_paths": 0, "unknown_reasons": {}}


def _obs_equal(a, b, tol=1e-9):
    if isinstance(a, float) or isinstance(b, float):
        try:
            fa, fb = float(a), float(b)
        except Exception:
            return False
        if fa != fa and fb != fb:
            return True
        return abs(fa - fb) <= tol * (1 + abs(fb))
    if isinstance(a, list) and isinstance(b, list):
        return len(a) == len(b) and all(_obs_equal(x, y, tol) for x, y in zip(a, b))
    if isinstance(a, dict) and isinstance(b, dict):
        return a.keys() == b.keys() and all(_obs_equal(a[k], b[k], tol) for k in a)
    return a == b


def run_obligation(pid, module, h, params, tier, seed, budget_scale=1.0):
    """symbolic run -> replay of counterexample / validation of witnesses."""
    budget = h.budget.get(tier, h.budget["quick"]) * budget_scale
    job = {"module": module, "harness": h.name, "params": params}
    # per-path / per-query time-outs are wall clock (z3): the thorough tier allows three times as much, so that a loaded
    # machine turns fewer queries into "unknown" paths
    ppt = h.per_path_timeout * (3 if tier == "thorough" else 1)
    sym = _worker(dict(job, mode="symbolic", budget=budget, ppt=ppt, seed=seed),
                  wall_timeout=budget * 2 + 120)
    if sym.get("verdict") == "error":  # crashed worker (solver abort, OOM under load): retry once
        sym = _worker(dict(job, mode="symbolic", budget=budget, ppt=ppt, seed=seed + 1),
                      wall_timeout=budget * 2 + 120)
    ob = {"harness": h.name, "params": params, "symbolic": sym, "status": None}
    if sym.get("verdict") == "error":
        ob["status"] = "harness-error"
        ob["detail"] = "worker crashed: " + sym.get("worker_error", "")[-1500:]
        return ob
    vectors = [c["args"] for c in sym.get("counterexamples", [])] + list(sym.get("witnesses", [])) + list(h.vectors(params) if callable(h.vectors) else h.vectors)
    if vectors:
        real = _worker(dict(job, mode="real", vectors=vectors), wall_timeout=600)
        mdl = _worker(dict(job, mode="models", vectors=vectors), wall_timeout=600) if h.models else real
        ob["validated_vectors"] = len(vectors)
        if "runs" not in real or "runs" not in mdl:
            ob["status"] = "harness-error"
            ob["detail"] = "validation worker failed: " + str(real.get("worker_error") or mdl.get("worker_error"))[-1500:]
            return ob
        ncex = len(sym.get("counterexamples", []))
        for i, (v, rr, mm) in enumerate(zip(vectors, real["runs"], mdl["runs"])):
            if rr["status"] in ("violation", "exception"):
                ob["status"] = "violation"
                ob["replay"] = {"property": pid, "module": module, "harness": h.name, "params": params, "args": v,
                                "real_outcome": rr, "from": "counterexample" if i < ncex else "witness"}
                return ob
            if i < ncex:
                # solver counterexample that does not reproduce on the real code
                ob["status"] = "harness-error"
                ob["detail"] = "counterexample does not reproduce on the real libraries: %r -> %r (symbolic said %s)" % (
                    v, rr, sym["counterexamples"][i].get("message", "")[:500])
                return ob
            if rr["status"] != mm["status"] or (rr["status"] == "ok" and not _obs_equal(rr["payload"], mm["payload"])):
                ob["status"] = "harness-error"
                ob["detail"] = "environment model disagrees with real library on %r: real=%r model=%r" % (v, rr, mm)
                return ob
    if sym["verdict"] == "vacuous":
        ob["status"] = "harness-error"
        ob["detail"] = "vacuous: no path reaches the end of the harness (reachability witness missing)"
    elif sym["verdict"] == "confirmed":
        ob["status"] = "confirmed"
    else:
        ob["status"] = "inconclusive"
    return ob


def replay_file(path):
    with open(path) as f:
        r = json.load(f)
    mods = _registry()
    job = {"module": r["module"], "harness": r["harness"], "params": r["params"], "mode": "real",
           "vectors": [r["args"]]}
    out = _worker(job, 600)
    print(json.dumps(out, indent=1))
    run = out.get("runs", [{}])[0]
    if run.get("status") in ("violation", "exception"):
        print("VIOLATION property=%s replay=%s" % (r["property"], path))
        return 1
    return 0


def known_finding_lines(pid, module):
    """Re-demonstrate each recorded (status known) finding of this property on the real code."""
    from engine.hdef import known_findings

    lines = []
    errors = []
    for kf in known_findings().values():
        if kf["property"] != pid or kf.get("status") != "known":
            continue
        w = kf["witness"]
        env_off = os.environ.get("VERIF_KF_OFF")
        os.environ["VERIF_KF_OFF"] = kf["id"]
        try:
            out = _worker({"module": w.get("module", module), "harness": w["harness"], "params": w.get("params", {}),
                           "mode": "real", "vectors": [w["args"]]}, 600)
        finally:
            if env_off is None:
                os.environ.pop("VERIF_KF_OFF", None)
            else:
                os.environ["VERIF_KF_OFF"] = env_off
        st = out.get("runs", [{}])[0].get("status")
        if st in ("violation", "exception"):
            lines.append("KNOWN-FINDING: property=%s %s [%s]" % (pid, kf["what"], kf["id"]))
        else:
            errors.append("known finding %s no longer reproduces (status %r): update known_findings.json" % (kf["id"], st))
    return lines, errors


def main(argv=None):
    import argparse

    ap = argparse.ArgumentParser()
    ap.add_argument("property")
    ap.add_argument("--tier", default=os.environ.get("VERIF_TIER", "quick"))
    ap.add_argument("--replay")
    ap.add_argument("--only", help="substring filter on harness name")
    ap.add_argument("--jobs", type=int, default=min(16, os.cpu_count() or 4))
    ap.add_argument("--budget-scale", type=float, default=float(os.environ.get("VERIF_BUDGET_SCALE", "1")))
    a = ap.parse_args(argv)
    if a.replay:
        return replay_file(a.replay)
    pid = a.property
    tier = a.tier if a.tier in ("quick", "thorough") else "quick"
    seed = int(os.environ.get("VERIF_SEED", "0") or 0)
    mods = _registry()
    if pid not in mods:
        print("no harness module for", pid)
        return 2
    sys.path.insert(0, ROOT)
    alt = os.environ.get("VERIF_REPO")
    if alt:  # seeded-change runs: engines B/C (in this process and in shard subprocesses) must see the same tree
        sys.path.insert(0, alt)
        os.environ["PYTHONPATH"] = ROOT + os.pathsep + alt
    os.environ.setdefault("VERIF_MODE", "concrete")
    import warnings

    warnings.filterwarnings("ignore")
    t0 = time.time()
    mod = importlib.import_module(mods[pid])
    extra = getattr(mod, "EXTRA", None)  # optional non-CrossHair engines (B/C): callable(tier, seed) -> list of obligations
    obligations = []
    jobs = []
    for h in mod.HARNESSES:
        if a.only and a.only not in h.name:
            continue
        for params in h.instances(tier):
            jobs.append((h, params))
    results = []
    with cf.ThreadPoolExecutor(max_workers=a.jobs) as ex:
        futs = [ex.submit(run_obligation, pid, mods[pid], h, params, tier, seed, a.budget_scale) for h, params in jobs]
        extra_fut = ex.submit(extra, tier, seed) if (extra and not a.only) else None
        for f in futs:
            results.append(f.result())
        extra_res = extra_fut.result() if extra_fut else []
    results.extend(extra_res)
    kf_lines, kf_errors = known_finding_lines(pid, mods[pid])
    from engine.evidence import write_evidence

    rc, lines = write_evidence(pid, tier, seed, mod, results, kf_lines, kf_errors, time.time() - t0)
    for ln in lines:
        print(ln)
    return rc


if __name__ == "__main__":
    sys.exit(main())
