"""Harness definition record + known-finding exclusion helper."""
from __future__ import annotations

import json
import os
from dataclasses import dataclass, field
from typing import Any, Callable, Dict, List, Optional

from .sym import PreconditionNotMet, _ACTIVE, require

ROOT = os.path.dirname(os.path.dirname(os.path.abspath(__file__)))
KF_PATH = os.path.join(ROOT, "known_findings.json")


@dataclass
class H:
    """One harness = one family of proof obligations (one per instance)."""

    name: str
    # make(**params) -> harness function with annotated symbolic parameters
    make: Callable[..., Callable]
    # instances(tier) -> list of concrete parameter dicts (the iterated, non-symbolic part)
    instances: Callable[[str], List[Dict[str, Any]]] = lambda tier: [{}]
    models: List[str] = field(default_factory=list)  # env models to install (envmodels.<name>.install)
    budget: Dict[str, float] = field(default_factory=lambda: {"quick": 40.0, "thorough": 240.0})
    per_path_timeout: float = 20.0
    functions: List[str] = field(default_factory=list)  # real functions executed symbolically
    bounds: str = ""
    outside: str = ""
    core: bool = True
    vectors: List[Dict[str, Any]] = field(default_factory=list)  # extra concrete vectors for model validation
    engine: str = "A"
    reals_only: bool = True
    lazy_format: bool = False  # format(symbolic int) stays a lazy symbolic string (see engine.sym._patch_lazy_format)


_KF_CACHE: Optional[dict] = None


def known_findings() -> dict:
    global _KF_CACHE
    if _KF_CACHE is None:
        try:
            with open(KF_PATH) as f:
                data = json.load(f)
        except FileNotFoundError:
            data = {"findings": []}
        _KF_CACHE = {e["id"]: e for e in data.get("findings", [])}
    return _KF_CACHE


class KnownFindingRegion(Exception):
    """Concrete run landed inside the region excluded for a recorded finding."""


def exclude_known(kf_id: str, cond) -> None:
    """Carve the recorded failing region of known finding ``kf_id`` out of a harness.

    Only entries with status "known" exclude anything; "fixed" entries (or ids
    absent from the file) leave the harness at full strength.  With
    VERIF_KF_OFF=<id> the exclusion is disabled (used to re-demonstrate the
    finding on the real code).
    """
    e = known_findings().get(kf_id)
    if e is None or e.get("status") != "known":
        return
    if os.environ.get("VERIF_KF_OFF") in (kf_id, "ALL"):
        return
    if _ACTIVE["symbolic"]:
        require(not cond)
    elif cond:
        raise KnownFindingRegion(kf_id)
