"""Run the repository's pinned test command and compare with /root/.vp/BASELINE.json stable_pass."""
import json, subprocess, sys, tempfile, os, xml.etree.ElementTree as ET
b = json.load(open("/root/.vp/BASELINE.json"))
out = tempfile.mktemp(suffix=".xml", dir="/var/tmp")
cmd = b["cmd"].replace("<file>", out)
subprocess.run(cmd, shell=True, stdout=subprocess.DEVNULL, stderr=subprocess.DEVNULL)
passed = set()
for tc in ET.parse(out).getroot().iter("testcase"):
    if not any(c.tag in ("failure", "error", "skipped") for c in tc):
        passed.add("%s::%s" % (tc.get("classname"), tc.get("name")))
os.remove(out)
missing = [t for t in b["stable_pass"] if t not in passed]
print("baseline stable_pass=%d passed_now=%d missing=%d" % (len(b["stable_pass"]), len(passed), len(missing)))
for m in missing:
    print("  MISSING", m)
sys.exit(1 if missing else 0)
