"""Symbolic-execution core of the /verif machinery (Engine A).

A *harness* is an ordinary Python function with annotated parameters
(int/float/bool/str/...) that

  * states its preconditions with ``require(cond)``,
  * drives real functions imported from /repo/partitura,
  * states the property with ``check(cond, msg)`` (raises ``Violation``),
  * returns a JSON-able observation (used to validate environment models).

``explore(fn, budget)`` executes the harness under CrossHair's tracer with z3
backed proxies as arguments, path by path, until the path tree is exhausted
(verdict ``confirmed`` = every feasible path within the harness's stated shape
was executed and none violated), a path violates (``refuted`` + concrete
counterexample taken from the solver model), or the CPU budget is used up
(``unknown``).  The loop is CrossHair's own ``explore_paths`` loop with
book-keeping added: number of paths, paths that reached the end of the harness
(the *reachability witness*: a harness none of whose paths reach the end is
vacuous), unknown paths by reason, solver queries and solver seconds.
"""
from __future__ import annotations

import inspect
import json
import os
import sys
import time
import traceback
from fractions import Fraction
from time import process_time

CONCRETE = os.environ.get("VERIF_MODE", "symbolic") != "symbolic"


class Violation(Exception):
    """The property's assertion failed (or the code raised where it must not)."""


class PreconditionNotMet(Exception):
    """Concrete replay was given arguments outside the harness precondition."""


_ACTIVE = {"symbolic": False}


def require(cond) -> None:
    """Harness precondition.  Symbolic: abandons the path.  Concrete: error."""
    if cond:
        return
    if _ACTIVE["symbolic"]:
        from crosshair.util import IgnoreAttempt

        raise IgnoreAttempt("require")
    raise PreconditionNotMet()


def check(cond, msg: str = "", *detail) -> None:
    if cond:
        return
    raise Violation(msg + (" | " + " ".join(_safe_repr(d) for d in detail) if detail else ""))


def _safe_repr(x):
    try:
        return repr(x)
    except Exception as e:  # pragma: no cover
        return "<unrepr %s>" % type(e).__name__


def must_not_raise(fn, *a, _what="call", _allowed=(), **k):
    """Run fn; an exception from the code under analysis is a violation."""
    try:
        return fn(*a, **k)
    except Violation:
        raise
    except _allowed:
        raise
    except Exception as e:
        tb = traceback.extract_tb(e.__traceback__)
        where = ""
        for fr in reversed(tb):
            if "/repo/" in fr.filename:
                where = " at %s:%d" % (fr.filename.replace("/repo/", ""), fr.lineno)
                break
        raise Violation("%s raised %s: %s%s" % (_what, type(e).__name__, e, where))


def is_symbolic(v) -> bool:
    if not _ACTIVE["symbolic"]:
        return False
    from crosshair.tracers import NoTracing

    with NoTracing():
        m = getattr(type(v), "__module__", "")
        return isinstance(m, str) and m.startswith("crosshair")


def realize(v):
    if not _ACTIVE["symbolic"]:
        return v
    from crosshair.core import deep_realize

    return deep_realize(v)


def jsonable(x):
    """Concrete value -> JSON-able structure (exact for ints/strs, floats as float)."""
    import numbers

    if x is None or isinstance(x, (bool, str)):
        return x
    if isinstance(x, int):
        return int(x)
    if isinstance(x, Fraction):
        return {"__frac__": [x.numerator, x.denominator]}
    if isinstance(x, float):
        return float(x)
    if isinstance(x, (list, tuple)):
        return [jsonable(i) for i in x]
    if isinstance(x, dict):
        return {str(k): jsonable(v) for k, v in x.items()}
    try:
        import numpy as np

        if isinstance(x, np.ndarray):
            return [jsonable(i) for i in x.tolist()]
        if isinstance(x, np.generic):
            return jsonable(x.item())
    except Exception:
        pass
    if isinstance(x, numbers.Integral):
        return int(x)
    if isinstance(x, numbers.Real):
        return float(x)
    return repr(x)


def unjson(x):
    if isinstance(x, dict) and "__frac__" in x:
        return Fraction(*x["__frac__"])
    if isinstance(x, list):
        return [unjson(i) for i in x]
    if isinstance(x, dict):
        return {k: unjson(v) for k, v in x.items()}
    return x


_SOLVER = {"queries": 0, "seconds": 0.0}


def _install_crosshair(reals_only: bool = True):
    import crosshair.core_and_libs  # noqa: F401  (registers patches/plugins)
    import crosshair.statespace as ss

    if not getattr(ss, "_verif_timed", False):
        orig = ss.solver_is_sat

        def timed(solver, *exprs):
            t = time.perf_counter()
            try:
                return orig(solver, *exprs)
            finally:
                _SOLVER["queries"] += 1
                _SOLVER["seconds"] += time.perf_counter() - t

        ss.solver_is_sat = timed
        ss._verif_timed = True
        # CrossHair's "premature realize" heuristic (make_concrete_or_symbolic) forks every int/float argument into
        # a symbolic and an eagerly-realised twin, choosing the twin more often the more a harness realises that
        # argument itself.  The twin only revisits inputs of the symbolic branch; harnesses that enumerate by
        # realisation would spend most of their budget there.  Always take the symbolic branch.
        orig_fp = ss.StateSpace.fork_parallel

        def fork_parallel(self, false_probability, desc=""):
            if desc.startswith("premature realize"):
                return False
            return orig_fp(self, false_probability, desc)

        ss.StateSpace.fork_parallel = fork_parallel
        # CrossHair's range() accepts int / SymbolicInt only: numpy integers (range(np.int64(3))) raise TypeError
        # there although the real range() takes anything with __index__.
        import operator

        import crosshair.libimpl.builtinslib as _B
        from crosshair.tracers import NoTracing as _NT

        orig_range_init = _B.SymbolicRange.__init__

        def range_init(self, *a):
            with _NT():
                a = tuple(x if isinstance(x, (int, _B.SymbolicInt)) or not hasattr(type(x), "__index__") else operator.index(x)
                          for x in a)
            orig_range_init(self, *a)

        _B.SymbolicRange.__init__ = range_init
    if reals_only:
        import crosshair.libimpl.builtinslib as B

        B._PYTYPE_TO_WRAPPER_TYPE[float] = ((B.RealBasedSymbolicFloat, 1.0),)
    _patch_float_to_int()
    _patch_property_builtins()


def _patch_property_builtins():
    """hasattr()/getattr()/setattr() are C builtins: a *property* reached through them runs with the tracer off,
    and symbolic arithmetic inside it aborts ("Numeric operation on symbolic while not tracing").  Properties are
    looked up statically and their fget/fset called as ordinary (traced) Python calls; everything else goes to the
    original builtin."""
    import inspect

    import crosshair.core as C
    from crosshair.tracers import NoTracing

    if getattr(C, "_verif_propb", False):
        return
    C._verif_propb = True
    reg = C._PATCH_REGISTRATIONS
    _missing = object()

    def _static_prop(o, name):
        with NoTracing():
            if not isinstance(name, str) or type(o).__module__.startswith("crosshair"):
                return None
            try:
                attr = inspect.getattr_static(type(o), name, _missing)
            except Exception:
                return None
            return attr if isinstance(attr, property) else None

    o_has, o_get, o_set = reg.get(hasattr), reg.get(getattr), reg.get(setattr)

    def _hasattr(o, name):
        prop = _static_prop(o, name)
        if prop is not None and prop.fget is not None:
            try:
                prop.fget(o)
                return True
            except AttributeError:
                return False
        return o_has(o, name) if o_has else hasattr(o, name)

    def _getattr(o, name, *default):
        prop = _static_prop(o, name)
        if prop is not None and prop.fget is not None:
            if default:
                try:
                    return prop.fget(o)
                except AttributeError:
                    return default[0]
            return prop.fget(o)
        return o_get(o, name, *default) if o_get else getattr(o, name, *default)

    def _setattr(o, name, value):
        prop = _static_prop(o, name)
        if prop is not None and prop.fset is not None:
            return prop.fset(o, value)
        return o_set(o, name, value) if o_set else setattr(o, name, value)

    reg[hasattr] = _hasattr
    reg[getattr] = _getattr
    reg[setattr] = _setattr


def _patch_float_to_int():
    """CrossHair's patches of int()/math.floor()/math.ceil() realise a symbolic float although the proxy
    implements __int__/__floor__/__ceil__ symbolically (z3 ToInt).  Route real-based floats there."""
    import math

    import crosshair.core as C
    import crosshair.libimpl.builtinslib as B
    from crosshair.tracers import NoTracing

    if getattr(C, "_verif_f2i", False):
        return
    C._verif_f2i = True
    reg = C._PATCH_REGISTRATIONS
    orig_int = reg.get(int)

    def _int(val=0, *a, **k):
        with NoTracing():
            import numpy as _np

            if isinstance(val, _np.ndarray) and val.dtype == object and val.size == 1:
                val = val.reshape(-1)[0]  # int(0-d object array): unwrap so that the proxy stays symbolic
            if isinstance(val, B.SymbolicInt) and not a and not k:
                return val
            if isinstance(val, LazyNum) and not a and not k:
                return val.n
            sym_float = isinstance(val, B.RealBasedSymbolicFloat) and not a and not k
            plain = not sym_float and not any(
                type(v).__module__.startswith("crosshair") for v in (val,) + a + tuple(k.values()))
            if plain:
                return int(val, *a, **k)
        if sym_float:
            return val.__int__()
        return orig_int(val, *a, **k)

    reg[int] = _int
    orig_float = reg.get(float)

    def _float(val=0.0, *a, **k):
        with NoTracing():
            import numpy as _np

            if isinstance(val, _np.ndarray) and val.dtype == object and val.size == 1:
                val = val.reshape(-1)[0]  # float(0-d object array): unwrap, keep the proxy symbolic
            if isinstance(val, B.RealBasedSymbolicFloat) and not a and not k:
                return val
            is_symint = isinstance(val, B.SymbolicInt) and not a and not k
            plain = not is_symint and not type(val).__module__.startswith("crosshair")
            if plain:
                return float(val, *a, **k)
        if is_symint:
            return val + 0.0
        return orig_float(val, *a, **k) if orig_float else float(val, *a, **k)

    reg[float] = _float
    for name, dunder in (("floor", "__floor__"), ("ceil", "__ceil__"), ("trunc", "__trunc__")):
        fn = getattr(math, name)
        orig = reg.get(fn)

        def mk(fn=fn, orig=orig, dunder=dunder):
            def _f(x):
                with NoTracing():
                    sym_float = isinstance(x, B.RealBasedSymbolicFloat)
                    if not sym_float and not type(x).__module__.startswith("crosshair"):
                        return fn(x)
                if sym_float:
                    return getattr(x, dunder)()
                return orig(x) if orig else fn(x)

            return _f

        reg[fn] = mk()


def _model_values(space, bound_args):
    """Concrete values of atomic symbolic arguments from the current z3 model,
    WITHOUT adding decisions to the path tree (deep_realize would).  Must be
    called with tracing off.  Returns None if an argument is not atomic."""
    import z3

    if space.solver.check() != z3.sat:
        return None
    m = space.solver.model()
    out = {}
    for k, v in bound_args.arguments.items():
        var = getattr(v, "var", None)
        if var is None or not isinstance(var, z3.ExprRef):
            if isinstance(v, (int, float, bool, str)) and not type(v).__module__.startswith("crosshair"):
                out[k] = v
                continue
            return None
        val = m.eval(var, model_completion=True)
        if z3.is_int_value(val):
            out[k] = val.as_long()
        elif z3.is_true(val) or z3.is_false(val):
            out[k] = z3.is_true(val)
        elif z3.is_rational_value(val):
            out[k] = {"__frac__": [val.numerator_as_long(), val.denominator_as_long()]}
        elif z3.is_string_value(val):
            out[k] = val.as_string()
        else:
            return None
    return out


class LazyNum:
    """Result of "{}".format(n) / "{:d}".format(n) for a symbolic int n under the lazy_format option: remembers the
    number instead of building its decimal string (building it forks once per possible digit count).  int() gives
    the number back; any string use materialises CrossHair's lazy decimal string."""

    def __init__(self, n):
        self.n = n

    def _s(self):
        return self.n.__str__()

    def __str__(self):
        return self._s()

    def __repr__(self):
        return "LazyNum(%r)" % (self.n,)

    def __int__(self):
        return self.n

    def __eq__(self, other):
        if isinstance(other, LazyNum):
            return self.n == other.n
        return self._s() == other

    def __ne__(self, other):
        return not self.__eq__(other)

    def __hash__(self):
        return hash(self._s())

    def __add__(self, other):
        return self._s() + other

    def __radd__(self, other):
        return other + self._s()

    def __len__(self):
        return len(self._s())

    def __getattr__(self, name):  # strip(), upper(), ...
        return getattr(self._s(), name)


def _patch_lazy_format():
    """format(n) / "{}".format(n) / f"{n}" of a symbolic int: CrossHair realises the number; return its lazy symbolic
    decimal string instead (str(n) is already modelled that way).  Opt-in per harness: useful when the code under
    analysis only formats numbers into messages that nobody inspects (warnings)."""
    import crosshair.core as C
    import crosshair.libimpl.builtinslib as B
    from crosshair.tracers import NoTracing

    if getattr(C, "_verif_lazyfmt", False):
        return
    C._verif_lazyfmt = True
    reg = C._PATCH_REGISTRATIONS
    orig = reg.get(format)

    def _format(value, spec=""):
        with NoTracing():
            symint = isinstance(value, B.SymbolicInt) and isinstance(spec, str) and spec in ("", "d")
            m = getattr(type(value), "__module__", "")
            plain_obj = isinstance(m, str) and not m.startswith("crosshair") and not isinstance(value, (int, float, str, bytes)) \
                and isinstance(spec, str) and spec == ""
        if symint:
            return value.__str__()
        if plain_obj:
            # ordinary object: CrossHair's patch would deep-realise it; its own __str__ runs under tracing instead
            return str(value)
        return orig(value, spec) if orig else format(value, spec)

    reg[format] = _format
    orig_sf = reg.get(str.format)

    def _str_format(self, *a, **k):
        with NoTracing():
            single = type(self) is str and self in ("{}", "{:d}") and len(a) == 1 and not k and isinstance(a[0], B.SymbolicInt)
        if single:
            return LazyNum(a[0])
        return orig_sf(self, *a, **k) if orig_sf else str.format(self, *a, **k)

    reg[str.format] = _str_format


def explore(fn, budget_s: float, per_path_timeout: float = 30.0, seed: int = 0,
            max_witnesses: int = 6, reals_only: bool = True, stop_on_refute: bool = True, lazy_format: bool = False):
    """Symbolically execute harness ``fn`` over all its paths.  Returns a dict."""
    _install_crosshair(reals_only)
    if lazy_format:
        _patch_lazy_format()
    from crosshair.condition_parser import condition_parser
    from crosshair.copyext import CopyMode, deepcopyext
    from crosshair.core import (COMPOSITE_TRACER, ExceptionFilter, NoTracing, Patched,
                                ResumedTracing, deep_realize, gen_args)
    from crosshair.options import AnalysisKind
    from crosshair.statespace import (CallAnalysis, NotDeterministic, RootNode, StateSpace,
                                      StateSpaceContext, VerificationStatus)
    from crosshair.util import CrossHairInternal, IgnoreAttempt, UnexploredPath

    sig = inspect.signature(fn, eval_str=True)
    root = RootNode()
    try:
        import random

        root._random = random.Random(seed)
    except Exception:
        pass
    res = {
        "verdict": "unknown", "paths": 0, "reached_end": 0, "ignored": 0,
        "unknown_paths": 0, "unknown_reasons": {}, "witnesses": [], "counterexamples": [],
        "exhausted": False,
    }
    _SOLVER["queries"] = 0
    _SOLVER["seconds"] = 0.0
    t0 = process_time()
    w0 = time.time()
    _ACTIVE["symbolic"] = True
    try:
        while True:
            now = process_time()
            if now - t0 > budget_s:
                res["stop"] = "budget"
                break
            res["paths"] += 1
            space = StateSpace(
                execution_deadline=now + per_path_timeout,
                model_check_timeout=per_path_timeout / 2,
                search_root=root,
            )
            refuted = False
            with condition_parser([AnalysisKind.PEP316]), Patched(), COMPOSITE_TRACER, \
                    NoTracing(), StateSpaceContext(space):
                status = None
                try:
                    pre_args = gen_args(sig)
                    args = deepcopyext(pre_args, CopyMode.REGULAR, {})
                    with ExceptionFilter() as ef, ResumedTracing():
                        obs = fn(*args.args, **args.kwargs)
                    if ef.user_exc is not None:
                        exc = ef.user_exc[0]
                        if isinstance(exc, NotDeterministic):
                            raise exc
                        try:
                            conc = deep_realize(pre_args)
                        except CrossHairInternal as ie:
                            # "Unexpected unsat from solver": the path condition turned out infeasible when a
                            # model was requested (an earlier incomplete non-linear check let it through).
                            # Not a counterexample: count the path as unexplored.
                            raise UnexploredPath("no model for the failing path: %s" % str(ie)[:80])
                        with NoTracing():
                            tb = "".join(x for x in ef.user_exc[1].format() if "site-packages/crosshair" not in x)
                            res["counterexamples"].append({
                                "args": jsonable(dict(conc.arguments)),
                                "exception": type(exc).__name__,
                                "message": str(exc)[:2000],
                                "is_violation": isinstance(exc, Violation),
                                "traceback_tail": tb[-3000:],
                            })
                        status = VerificationStatus.REFUTED
                        refuted = True
                    elif ef.ignore:
                        res["ignored"] += 1
                        status = None
                    else:
                        res["reached_end"] += 1
                        if len(res["witnesses"]) < max_witnesses:
                            with NoTracing():
                                w = _model_values(space, pre_args)
                                if w is not None:
                                    res["witnesses"].append(w)
                        status = VerificationStatus.CONFIRMED
                except IgnoreAttempt:
                    res["ignored"] += 1
                    status = None
                except UnexploredPath as e:
                    res["unknown_paths"] += 1
                    k = type(e).__name__
                    res["unknown_reasons"][k] = res["unknown_reasons"].get(k, 0) + 1
                    status = VerificationStatus.UNKNOWN
                _analysis, exhausted = space.bubble_status(CallAnalysis(status))
            if refuted and stop_on_refute:
                res["stop"] = "refuted"
                break
            if exhausted:
                res["exhausted"] = True
                res["stop"] = "exhausted"
                break
    finally:
        _ACTIVE["symbolic"] = False
    res["cpu_s"] = round(process_time() - t0, 3)
    res["wall_s"] = round(time.time() - w0, 3)
    res["solver_queries"] = _SOLVER["queries"]
    res["solver_s"] = round(_SOLVER["seconds"], 3)
    if res["counterexamples"]:
        res["verdict"] = "refuted"
    elif res["exhausted"] and res["unknown_paths"] == 0:
        res["verdict"] = "confirmed" if res["reached_end"] > 0 else "vacuous"
    else:
        res["verdict"] = "unknown"
    return res


def run_concrete(fn, args: dict):
    """Run a harness on concrete arguments.  Returns (status, payload)."""
    try:
        # rationals come from real-valued (float) symbolic parameters: concrete replays get floats
        args = {k: (float(v) if isinstance(v, Fraction) else v) for k, v in args.items()}
        obs = fn(**args)
        return "ok", jsonable(obs)
    except PreconditionNotMet:
        return "precondition", None
    except Violation as e:
        return "violation", str(e)[:2000]
    except Exception as e:
        return "exception", "%s: %s\n%s" % (type(e).__name__, e, traceback.format_exc()[-1500:])
