"""Confirm a seeded change in a scratch worktree: suite unchanged, demo 0 without / 1 with.
usage: confirm_seed.py <seed_dir> <worktree>"""
import json, os, subprocess, sys, tempfile, xml.etree.ElementTree as ET
seed, wt = sys.argv[1], sys.argv[2]
env = dict(os.environ, PYTHONPATH=wt)
def sh(cmd, **k):
    return subprocess.run(cmd, shell=True, cwd=wt, env=env, capture_output=True, text=True, **k)
sh("git checkout -q -- . && git checkout -q --detach main")
assert "/repo" not in sh("/venv/bin/python -W ignore -c 'import partitura; print(partitura.__file__)'").stdout
d0 = sh("/venv/bin/python -W ignore %s/demo.py" % seed).returncode
a = sh("git apply %s/patch.diff" % seed)
if a.returncode != 0:
    print("APPLY FAILED", a.stderr[:500]); sys.exit(2)
d1 = sh("/venv/bin/python -W ignore %s/demo.py" % seed).returncode
b = json.load(open("/root/.vp/BASELINE.json"))
out = tempfile.mktemp(suffix=".xml", dir="/var/tmp")
sh(b["cmd"].replace("cd /repo && ", "").replace("<file>", out))
passed = set()
for tc in ET.parse(out).getroot().iter("testcase"):
    if not any(c.tag in ("failure", "error", "skipped") for c in tc):
        passed.add("%s::%s" % (tc.get("classname"), tc.get("name")))
os.remove(out)
missing = [t for t in b["stable_pass"] if t not in passed]
sh("git checkout -q -- .")
res = {"demo_without": d0, "demo_with": d1, "suite_missing": missing, "ok": d0 == 0 and d1 == 1 and not missing}
print(json.dumps(res))
sys.exit(0 if res["ok"] else 1)
