"""Regenerate /verif/MANIFEST.json from the table below (keeps it schema-valid)."""
import json, os, sys
ROOT = os.path.dirname(os.path.dirname(os.path.abspath(__file__)))

CHECKS = {
 "C01": dict(
    text="Bounded symbolic execution (CrossHair+z3) of the real Part/TimePoint code in lock-step with a reference model: "
         "operation scripts (pre-state of <=3 objects and <=2 quarter changes, then 1-2 step operations) with all times "
         "symbolic and unbounded; after the step the full representation invariant and query equivalence with the model "
         "are asserted; 'confirmed' means the path tree of the instance was exhausted. One inductive step from every small "
         "canonical state stands for histories of any length within the size bound.",
    note="Trusts CrossHair's proxies/tracer, z3, numpy object-array semantics and the pure-Python interp1d model "
         "(validated against scipy on every run). Bounds: <=4 live objects, <=3 quarter changes, 5 classes; iter_all(cls=None) "
         "only on concrete replays.",
    technique="symbolic execution of real code (CrossHair/z3), inductive step vs reference model",
    ref="DESIGN.md §2 C01"),
 "C02": dict(
    text="Bounded symbolic execution of the real Part._time_interpolator / beat_map / quarter_map / inverse maps on parts whose "
         "shape (quarter-duration values, time signatures, first-measure kind, beat mode) is concrete per instance and whose "
         "positions and query are symbolic ints in [0,10^7]; oracle = exact integer-arithmetic integral of the rate from the origin "
         "the property states. Path trees are exhausted per shape.",
    note="Floats are reals (relative tolerance 1e-9); float ties of the pickup comparison and the map end points for non-binary "
         "rates are covered by concrete vectors on the real libraries. Models: interp1d, defaultdict, np constructors. Known finding "
         "KF-C02-origin-not-first-point excludes parts whose first point is not 0.",
    technique="symbolic execution of real code (CrossHair/z3) vs exact rational oracle",
    ref="DESIGN.md §2 C02"),
 "C12": dict(
    text="Symbolic execution of the real conversion functions with symbolic ints (alter, octave, fifths, tempo, ticks unbounded or "
         "widely bounded; table selectors enumerated by the solver): twelve-tone arithmetic, key bijection and rejection outside "
         "-7..7, tempo/duration/interval/tuplet/clef tables, tick<->seconds algebra. Path trees exhausted.",
    note="Frequency conversions (2**x, log2) are outside the encoding. ndarray branch of the tick conversion runs on concrete vectors "
         "with the real numpy. Floats as reals; IEEE rounding of the tick kernel is decided by engine B (C06/C08).",
    technique="symbolic execution of real code (CrossHair/z3) vs arithmetic oracles",
    ref="DESIGN.md §2 C12"),
 "C16": dict(
    text="Symbolic execution of _transpose_note_inplace/_transpose_step/transpose_note over all 7 steps x alter -2..2 x octave 0..8 x "
         "39 interval classes x both directions against diatonic arithmetic (incl. up-then-down identity), and of transpose() on a part "
         "/ score with a tie chain, grace note and second voice with symbolic pitch, incl. argument-unchanged fingerprint. Path trees "
         "exhausted for every instance.",
    note="Results needing more than a double accidental and intervals above a seventh are outside the claim; one part shape.",
    technique="symbolic execution of real code (CrossHair/z3) vs diatonic arithmetic oracle",
    ref="DESIGN.md §2 C16"),
 "C14": dict(
    text="Symbolic execution of adjust_offsets_w_sustain / PerformedPart construction / threshold setter / PerformedNote validation on "
         "<=3 notes and <=3 controls with symbolic real times, pedal values, controller kind and threshold(s), against a reference pedal "
         "model written from the statement (never before release, equality cases, first later pedal-up or re-strike, monotone in the "
         "threshold, setter recomputes); track renumbering on two parts with symbolic track numbers. Path trees exhausted per shape.",
    note="Simultaneous pedal events excluded; coincidence of a release with a pedal event/re-strike accepts both readings. The "
         "float32/int32 note-array view and from_note_array are checked on concrete vectors with the real numpy only.",
    technique="symbolic execution of real code (CrossHair/z3) vs reference pedal model",
    ref="DESIGN.md §2 C14"),
 "C06": dict(
    text="Symbolic execution of adjust_time (<=3 tempo changes at symbolic ticks), load_performance_midi on in-memory mido files from a "
         "shape catalogue (1-2 tracks, tempo events in any track, zero-velocity note-ons, control/program/meta events) with symbolic "
         "delta times, and save_performance_midi(out=None) read by an independent reader and re-loaded (PerformedPart / Performance / "
         "list / two tracks) with symbolic millisecond times; oracles: exact integer integral of the tempo map, pairing rule, id order, "
         "nearest-tick condition |tick*mpq - 1e6*ppq*t| <= mpq/2.",
    note="MIDI bytes (mido parser/writer) are not encoded: files are mido objects in memory. Pitches restricted to {60,62,64,127} because "
         "the loader hashes them (enumeration). mpq/ppq concrete per instance; two-note round trips use integer or half-integer tick "
         "factors, the general factor is covered for one note. Floats as reals.",
    technique="symbolic execution of real code (CrossHair/z3) vs exact tempo-integral oracle",
    ref="DESIGN.md §2 C06"),
 "C10": dict(
    text="Symbolic execution of time_signature_map/key_signature_map/clef_map (<=3 elements per kind, symbolic start times and fifths, staves "
         "with and without clef, positions before the first element) and of measure_map/measure_number_map/metrical_position_map (1-4 "
         "contiguous measures with symbolic barlines, pickup/full/overlong first bar decided symbolically) against 'latest element starting "
         "at or before t' / 'measure containing t' oracles; scalar vs list queries compared. Path trees exhausted per shape.",
    note="Models: interp1d, PPoly, np constructors, defaultdict. Measures contiguous from time 0; gaps between measures and time-signature "
         "changes inside the measure harness are outside. Known finding KF-C10-pickup-short-part.",
    technique="symbolic execution of real code (CrossHair/z3) vs in-force oracle",
    ref="DESIGN.md §2 C10"),
 "C13": dict(
    text="Symbolic execution of the real _make_pianoroll on 2-3 notes in any order with symbolic pitch, velocity and onset frame (durations "
         "enumerated 0..3 frames), a concrete sub-frame offset and an option tuple per instance, against an independent rasteriser written "
         "from the statement: shape, exact cell set, own velocity / max on collision / 1 in binary mode, per-note index rows in input order. "
         "Path trees exhausted per instance.",
    note="Models: np constructors/ufuncs on object arrays, csc_matrix (dictionary of keys), defaultdict. compute_pianoroll field selection, "
         "the pitch-class fold and pianoroll_to_notearray are dense numeric kernels checked on concrete vectors with the real numpy/scipy "
         "only. Exact half-frame rounding ties and negative onsets are outside.",
    technique="symbolic execution of real code (CrossHair/z3) vs independent rasteriser",
    ref="DESIGN.md §2 C13"),
 "C04": dict(
    text="Engine B: the tick conversion save_score_midi.to_ppq is translated from the live source (AST -> z3): a relative-error lemma over the "
         "reals (|float value - ppq*t/q| <= 1/1000 for every divisions value in the set, t <= 2^16) plus a conversion step (the int()/round "
         "wrapper found in the source maps every value within 1/1000 of an integer K to K); if the proof fails a bit-precise binary64 search "
         "finds a concrete input, which is replayed through save_score_midi before it is reported. Engine A: symbolic execution of "
         "save_score_midi(out=None) on 1-2 part scores with symbolic onsets/durations/voice/velocity, read by an independent reader "
         "(exact ticks also after a divisions change inside a part, lcm ppq doubled to minimum_ppq, velocity, track/channel grouping per mode, the three pickup "
         "policies, time signatures at their musical positions) and of map_to_track_channel against the documented table; save_score_midi -> load_score_midi "
         "on three concrete shapes.",
    note="MIDI bytes are not encoded; the import half (load_score_midi: quantisation, estimate_* analyses) runs on concrete shapes only. "
         "Float lemma: single-segment quarter map, ftp=0, q in the listed set (thorough 1..960). Models: interp1d, defaultdict, np, real-dict workaround.",
    technique="AST->SMT float kernel proof (z3 reals + binary64) and symbolic execution of real code (CrossHair/z3)",
    ref="DESIGN.md §2 C04"),
 "C07": dict(
    text="Engine C: the compiled patterns and output templates of the live match-line classes (v1: note, snote, section, stime, ptime, pedals; "
         "v0: snote, note for every version, pedals) are converted to z3 regular expressions; regex-only emptiness queries decide that every "
         "formatted line is found by its pattern, every field language lies inside its capture group and the following separator cannot occur "
         "in the field; solver-generated members of each line language are parsed, re-formatted and re-parsed by the real classes (kind, fields, "
         "fixpoint). Engine A (CrossHair): fractional durations (string round trip, exact addition within the 1024 bound), key signatures in the "
         "three historical spellings, time signatures, upgrade of v0 insertion/pedal lines to 1.0.0.",
    note="Field languages are stated per formatter (bounded digit counts, identifiers without separators, <=3 additive components, <=4 list items); "
         "info/scoreprop/meta free-text values are outside engine C. Numbers rendered with str.format are enumerated by the solver in small ranges. "
         "Capture exactness rests on a sufficient separator condition, not on a full ambiguity decision.",
    technique="regex inclusion/emptiness in z3 + symbolic execution of real code (CrossHair/z3)",
    ref="DESIGN.md §2 C07"),
 "C05": dict(
    text="Symbolic execution of note_array_from_part / note_array_from_note_list / rest_array_from_part (one part with a tie chain, a grace note, "
         "a note without voice/staff and a rest; symbolic onset/split/step/voice/fifths; include_* option tuples) and of "
         "note_array_from_part_list / Score.note_array (2-3 parts with different divisions, optional empty part, unique ids) against row oracles "
         "written from the statement: one row per sounding note, timeline values, exact quarter/beat formulas, optional columns, order by onset "
         "then pitch, lcm rescaling. Inverse direction: note_array_to_score followed by note_array on 1-3 notes whose onsets/durations lie on a small "
         "integer grid (realised: the solver enumerates the grid), for div / beat / both / time-signature column kinds. Path trees exhausted per instance.",
    note="float32 storage of the f4 columns is compared with tolerance 1e-6; several notes are pinned to keep the number of orderings "
         "tractable (stated per harness); the inverse direction is a chain of structured-array kernels and is covered by enumeration through realisation only; "
         "known findings KF-C05-inverse-only-grace-notes and KF-C05-inverse-divs-from-first-note. Models: interp1d, PPoly, defaultdict, np.",
    technique="symbolic execution of real code (CrossHair/z3) vs row oracle",
    ref="DESIGN.md §2 C05"),
 "C15": dict(
    text="Symbolic execution of merge_parts on two parts with different divisions (symbolic onsets, voices, staves incl. a missing staff; "
         "voice / staff / auto modes; single part, list, group) against the statement: every element at t*lcm/q, voice (staff) classes of "
         "different inputs disjoint and classes within an input preserved, structural elements from the first part only, merged timeline "
         "consistent with the lcm as quarter duration. Path trees exhausted per instance.",
    note="The equality with the score-level note array is evaluated on concrete replays only (cost). Known finding KF-C15-auto-keyerror carves "
         "out reassign='auto' inputs whose element staves/voices are not used by pitched notes. Two parts; variables not free in an instance are pinned.",
    technique="symbolic execution of real code (CrossHair/z3) vs rescaling/partition oracle",
    ref="DESIGN.md §2 C15"),
 "C11": dict(
    text="Symbolic execution of (a) estimate_symbolic_duration + symbolic_to_numeric_duration (round trip for a list of divisions, numeric "
         "durations enumerated by the solver on a grid that contains every table value and its neighbours), (b) find_tie_split (pieces tile "
         "the interval and evaluate to their length), (c) add_measures on a timeline with symbolic end, optional second time signature and "
         "optional existing measure at symbolic positions (measures tile the timeline, lengths implied by the signature unless cut, existing "
         "measure kept also across the signature change, consecutive numbering), (d) tie_notes / split_note on 3-4 explicit measures with a divisions change at the barline and one "
         "note of symbolic onset and duration (realised): note array unchanged, every piece inside one measure, chain contiguous with one pitch/voice/staff, assigned "
         "symbolic durations evaluate under the divisions in force, slur end moved. Path trees exhausted per instance.",
    note="find_tuplets / fill_rests / sanitize_part are NOT encoded; that part of the property is outside the claim. tie_notes runs on realised numbers "
         "(the duration estimator searches tables). Known findings KF-C11-estimate-tolerance and KF-C11-estimate-tuplet-tolerance (eps acceptance windows).",
    technique="symbolic execution of real code (CrossHair/z3) vs tiling / round-trip oracles",
    ref="DESIGN.md §2 C11"),
 "C09": dict(
    text="Symbolic execution of add_segments/get_paths/unfold_paths/Path/ScoreVariant.create_variant_part/new_part_from_path/"
         "unfold_part_maximal/unfold_part_minimal/iter_unfolded_parts on repeat-structure templates (none, simple repeat at start/middle, two "
         "independent repeats, nested repeats, first/second ending also with a tie into the first ending, plain da capo / dal segno, da capo al fine, "
         "dal segno al coda and da capo al coda) whose section lengths are symbolic: length = sum of visited sections, "
         "every note once per visit at the shifted position with unchanged pitch/voice/staff and suffixed id, no repeat/jump objects left, "
         "tie/slur/time-point references inside the copy, variant count, equal part for no repeats, original unchanged (fingerprint).",
    note="Structure is concrete per template (three endings and the maximal unfolding of coda layouts are outside); two lengths symbolic, others pinned. "
         "Warning formatting is stubbed and format(int) kept lazy (opt-in CrossHair patch). Known findings: Segment objects cached on the original "
         "part (ignored by the fingerprint while listed) and full-extent copies of objects crossing a jump.",
    technique="symbolic execution of real code (CrossHair/z3) vs visit-sequence oracle",
    ref="DESIGN.md §2 C09"),
 "C20": dict(
    text="Symbolic execution of (1) the container protocol of Score/Performance (len, index with a symbolic int incl. negative/out of range, "
         "plain / nested / interleaved / zipped iteration chosen by a symbolic selector) and (2) read-only entry points on a part with symbolic "
         "positions (note arrays, rest array, the eight maps, pretty, save_score_midi, transpose, unfold_part_maximal, compute_pianoroll; "
         "save_performance_midi on a performance): a canonical fingerprint of all points, links, objects and attributes is equal before and "
         "after, and a second call returns an identical result. Path trees exhausted per instance.",
    note="save_musicxml / save_match (lxml, files) and estimate_spelling/voices/key (numeric kernels) are outside. While KF-C09-segments-cached-on-part "
         "is listed as known the fingerprint ignores Segment objects (only those).",
    technique="symbolic execution of real code (CrossHair/z3), fingerprint equality",
    ref="DESIGN.md §2 C20"),
 "C08": dict(
    text="Symbolic execution of the in-memory chain matchfile_from_alignment -> MatchFile -> note_alignment_from_matchfile / "
         "performed_part_from_match / part_from_matchfile on a concrete small score per instance and a symbolic performance (onsets of "
         "unmatched notes, durations, velocities, pedal values; ms times): same alignment entries and ids, pitch/velocity, ticks = nearest "
         "tick, seconds consistent with the file's clock, pedal events, clock units/rate, score notes with the same onset/duration in beats, "
         "spelling, voice, staff, key signatures and measures at their bars. Engine B proves the tick<->seconds kernels (relative-error model).",
    note="The chain runs without text (line text is C07's). load_matchfile's exact-duplicate removal and validate_match_ids are checked on generated "
         "files of <=5 note lines with symbolic ids over a pool of 2 against the documented resolution. The score half runs on "
         "concrete shapes only (two or three measures, optional pickup, key change at a barline, 4/4-3/4-4/4); matched performed notes have pinned onsets (they are "
         "interpolation knots: non-linear otherwise). Performed ids of the form n<k>.",
    technique="symbolic execution of real code (CrossHair/z3) + AST->SMT float kernel proof",
    ref="DESIGN.md §2 C08"),
 "C17": dict(
    text="Spelling: symbolic execution of the last two stages of the pitch speller (compute_morphetic_pitch, p2pn) with a symbolic MIDI pitch "
         "21..108 and an ARBITRARY morph 0..6: whichever morph the estimator picks, the spelled step/alteration/octave sounds exactly the MIDI "
         "pitch (so a score imported from MIDI keeps the file's pitches). Voices: estimate_voices on 3-4 notes with concrete pitches and symbolic "
         "onset/duration on small integer grids incl. zero-length notes, both modes (one positive voice per note, numbered from 1 without gaps, "
         "chord mode groups identical onset+duration; the solver enumerates the grid by realisation). Key: the duration-weighted pitch-class "
         "distribution with symbolic pitches and real durations (octave shift invariant, transposition rotates, rescaling rescales), the static "
         "rotation structure of the three profile tables, and estimate_key end to end on concrete contexts plus one symbolic note (valid name, "
         "octave/duration/onset invariance, transposition equivariance). Path trees exhausted per instance.",
    note="The morph estimation (chroma-vector windows; hence |alter| <= 2 and order independence of spelling) and load_score_midi are outside. "
         "VoSA and np.corrcoef run on realised (concrete) inputs under the tracer: the solver decides path feasibility and enumerates the grid, "
         "it does not reason about the float kernel; near ties (< 1e-9) of the two best correlations are outside the claim.",
    technique="symbolic execution of real code (CrossHair/z3); enumeration by realisation for the numeric kernels",
    ref="DESIGN.md §I.5 C17"),
 "C18": dict(
    text="PARTIAL (second sentence of the property only): symbolic execution of to_matched_score / get_matched_notes / "
         "get_time_maps_from_alignment on a concrete four-note score array and alignment shape per instance (matches in any order, "
         "deletion, insertion, ornament, ids missing on either side) with a symbolic performance (onsets and durations in ms, velocities): "
         "the table pairs exactly the matches whose ids exist on both sides, ordered by score onset then pitch, with the performed "
         "onset / duration / velocity of the pair; both time maps pass through the matched score onsets and the mean performed onset of "
         "each chord. Path trees exhausted per instance.",
    note="The encode / decode chain of the first sentence (float32, log2, 2**x, mean / std, symbolic-by-symbolic division over ~600 lines of "
         "vectorised numpy) is NOT claimed: non-linear with transcendental terms, no sound bounded encoding within reach. Maps are queried at "
         "their knots only; floats are reals.",
    technique="symbolic execution of real code (CrossHair/z3), partial",
    ref="DESIGN.md §I.5 C18"),
 "C03": dict(
    text="PARTIAL (second sentence of the property only): symbolic execution of the exporter's measure linearisation "
         "(linearize_measure_contents / linearize_segment_contents / remove_voice_polyphony / make_note_el / add_chord_tags / "
         "merge_with_voice / merge_measure_contents / forward_backup_if_needed) on one measure with symbolic onsets, durations, voice and "
         "shape variants (chord, chord member of other length, grace note, rest, tie flag, words/dynamics, a mid-measure divisions change in the "
         "first or a later measure, two notes to be moved to free voices); the produced element sequence is read by an "
         "independent MusicXML position interpreter (duration / backup / forward / chord / grace) and must denote exactly the measure's "
         "notes (onset, duration, spelling, staff, tie flags), with no polyphony left inside a voice. Path trees exhausted per shape.",
    note="Element-tree model instead of lxml: NO serialisation, NO load_musicxml, no re-export fixpoint, no part lists/groups, "
         "slurs, tuplets, notes crossing a divisions change; these clauses of C03 are not claimed. Numbers written with str.format are kept "
         "as lazy values (opt-in CrossHair patch) so they are decided, not enumerated.",
    technique="symbolic execution of real code (CrossHair/z3) + independent interpreter, partial",
    ref="DESIGN.md §I.5 C03"),
}
NOT_APPLICABLE = {
 "C19": "MEI/kern loaders work on lxml documents and text lines; the only solver-reachable kernels (kern reciprocal/dot arithmetic, pitch letter counting, MEI duration tables) are table look-ups with nothing left for a solver but enumeration, and dot_function divides symbolic by symbolic (DESIGN.md §2 C19)",
}

def main():
    props = [json.loads(l)["id"] for l in open(os.path.join(ROOT, "properties.jsonl"))]
    checks = []
    for pid in props:
        if pid not in CHECKS:
            continue
        c = CHECKS[pid]
        checks.append({
            "property_id": pid,
            "quick_cmd": "./vcheck %s --tier quick" % pid,
            "thorough_cmd": "./vcheck %s --tier thorough" % pid,
            "evidence_file": "/verif/evidence/%s.json" % pid,
            "replay_cmd_template": "./vcheck %s --replay {path}" % pid,
            "engine": "vcheck",
            "level_claimed": {"category": "other", "text": c["text"], "design_ref": c["ref"]},
            "level_note": c["note"],
            "technique": c["technique"],
        })
    na = [{"property_id": p, "reason": NOT_APPLICABLE.get(p, "no check built yet (work in progress; see DESIGN.md)")}
          for p in props if p not in CHECKS]
    m = {
        "version": 1,
        "setup_cmd": "sh engine/bootstrap.sh",
        "hooks": {"guard": "CPJKU_PARTITURA_VERIF", "enable": "no source hooks: environment models are installed from /verif as module globals of the partitura modules under analysis, per worker process",
                  "baseline_off_cmd": "/venv/bin/python /verif/engine/baseline_check.py", "source_commits": [], "add_only": True},
        "engines": [{"name": "vcheck", "path": "/verif/vcheck", "serves_properties": [c["property_id"] for c in checks],
                     "kind_free_text": "solver-based checking of the real code: CrossHair symbolic execution (engine A), AST->z3 float kernels (engine B), regex->z3 (engine C)"}],
        "checks": checks,
        "notes": "Exit codes: 0 ok (KNOWN-FINDING lines possible), 1 VIOLATION (replayed on unmodified libraries), 2 harness error. known_findings.json lists recorded/fixed defects.",
        "not_applicable": na,
    }
    json.dump(m, open(os.path.join(ROOT, "MANIFEST.json"), "w"), indent=1)
    try:
        import jsonschema
        jsonschema.validate(m, json.load(open("/root/.vp/MANIFEST.schema.json")))
        print("MANIFEST valid: %d checks, %d not_applicable" % (len(checks), len(na)))
    except ImportError:
        print("written (jsonschema not available)")

main()
