"""Render a table of per-property results from a log of `./vcheck <id> --tier <tier>` runs (summary lines).
usage: thorough_table.py <log> [<log> ...]"""
import re, sys
rows = {}
for f in sys.argv[1:]:
    for l in open(f, errors="replace"):
        m = re.match(r"(C\d\d) tier=(\w+) obligations=(\d+) confirmed=(\d+) inconclusive=(\d+) violations=(\d+) harness_errors=(\d+) paths=(\d+) solver_queries=(\d+) wall=(\d+)s", l)
        if m:
            rows[(m.group(1), m.group(2))] = m.groups()
print("| id | tier | obligations | confirmed | inconclusive | violations | harness errors | paths | solver queries | wall s |")
print("|---|---|---|---|---|---|---|---|---|---|")
for k in sorted(rows):
    print("| " + " | ".join(rows[k]) + " |")
