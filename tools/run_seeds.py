"""Run the registered quick (or thorough) check of each seeded change against a scratch worktree with the change applied.
usage: run_seeds.py [--tier quick] [--only C01_m1,...]   (writes seeded/RESULTS.json)"""
import json, os, subprocess, sys, time
ROOT = os.path.dirname(os.path.dirname(os.path.abspath(__file__)))
WT = "/tmp/wt_seedrun"
tier = "quick"
only = None
shard = None
jobs = None
for i, a in enumerate(sys.argv):
    if a == "--tier": tier = sys.argv[i + 1]
    if a == "--only": only = sys.argv[i + 1].split(",")
    if a == "--shard":  # k/n: every n-th seed starting at k, own worktree and own result file (merge with --merge)
        shard = tuple(int(x) for x in sys.argv[i + 1].split("/"))
        WT = "/tmp/wt_seedrun%d" % shard[0]
    if a == "--jobs": jobs = sys.argv[i + 1]
if "--merge" in sys.argv:
    res_path = os.path.join(ROOT, "seeded", "RESULTS.json")
    results = json.load(open(res_path)) if os.path.exists(res_path) else {}
    for f in sorted(os.listdir(os.path.join(ROOT, "seeded"))):
        if f.startswith("RESULTS.shard"):
            results.update(json.load(open(os.path.join(ROOT, "seeded", f))))
            os.remove(os.path.join(ROOT, "seeded", f))
    json.dump(results, open(res_path, "w"), indent=1)
    print("merged:", len(results), "seeds;", sum(1 for v in results.values() if v.get("detected")), "detected")
    sys.exit(0)
def sh(cmd, cwd=None, env=None):
    return subprocess.run(cmd, shell=True, cwd=cwd, env=env, capture_output=True, text=True)
if not os.path.isdir(WT):
    sh("git -C /repo worktree add -q --detach %s main" % WT)
sh("git checkout -q -- . && git checkout -q --detach main", cwd=WT)
res_path = os.path.join(ROOT, "seeded", "RESULTS.json" if shard is None else "RESULTS.shard%d.json" % shard[0])
results = json.load(open(res_path)) if os.path.exists(res_path) else {}
names = [n for n in sorted(os.listdir(os.path.join(ROOT, "seeded"))) if os.path.isdir(os.path.join(ROOT, "seeded", n))]
if shard is not None:
    names = names[shard[0]::shard[1]]
for name in names:
    d = os.path.join(ROOT, "seeded", name)
    if not os.path.isdir(d) or (only and name not in only):
        continue
    meta = json.load(open(os.path.join(d, "meta.json")))
    prop = meta["property"]
    sh("git checkout -q -- . && git checkout -q --detach main", cwd=WT)  # /repo's main may have gained fix: commits
    a = sh("git apply %s/patch.diff" % d, cwd=WT)
    if a.returncode != 0:
        results[name] = {"property": prop, "error": "patch does not apply: " + a.stderr[:300]}
        sh("git checkout -q -- .", cwd=WT)
        continue
    env = dict(os.environ, VERIF_REPO=WT)
    t0 = time.time()
    r = sh("./vcheck %s --tier %s%s" % (prop, tier, (" --jobs " + jobs) if jobs else ""), cwd=ROOT, env=env)
    lines = [l for l in r.stdout.splitlines() if l.startswith(("VIOLATION", "HARNESS-ERROR", prop + " tier"))]
    viol = [l for l in r.stdout.splitlines() if l.startswith("VIOLATION")]
    detail = []
    out_lines = r.stdout.splitlines()
    for i, l in enumerate(out_lines):
        if l.startswith("VIOLATION") and i + 1 < len(out_lines):
            detail.append(out_lines[i + 1].strip()[:300])
    results[name] = {"property": prop, "tier": tier, "exit": r.returncode, "detected": r.returncode == 1 and bool(viol),
                     "n_violation_lines": len(viol), "first_violations": detail[:3], "summary_line": lines[-1] if lines else "",
                     "wall_s": round(time.time() - t0)}
    print(name, results[name]["exit"], "DETECTED" if results[name]["detected"] else "missed", detail[:1], flush=True)
    sh("git checkout -q -- .", cwd=WT)
    json.dump(results, open(res_path, "w"), indent=1)
