"""Replace the seeded-change table of DESIGN.md (between the SEEDTABLE markers) with the output of seed_table.py."""
import os, re, subprocess, sys
ROOT = os.path.dirname(os.path.dirname(os.path.abspath(__file__)))
table = subprocess.check_output([sys.executable, os.path.join(ROOT, "tools", "seed_table.py")], text=True).strip()
p = os.path.join(ROOT, "DESIGN.md")
s = open(p).read()
block = "<!-- SEEDTABLE-BEGIN -->\n" + table + "\n<!-- SEEDTABLE-END -->"
if "<!-- SEEDTABLE-BEGIN -->" in s:
    s = re.sub(r"<!-- SEEDTABLE-BEGIN -->.*?<!-- SEEDTABLE-END -->", lambda m: block, s, flags=re.S)
else:
    s = s.replace("\nSEEDTABLE\n", "\n" + block + "\n")
open(p, "w").write(s)
print("seed table: %d rows" % (table.count("\n") - 1))
