"""Render the seeded-change table of DESIGN.md from seeded/*/meta.json, seeded/RESULTS.json and seeded/NOTES.json."""
import json, os
ROOT = os.path.dirname(os.path.dirname(os.path.abspath(__file__)))
res = json.load(open(os.path.join(ROOT, "seeded", "RESULTS.json")))
notes = json.load(open(os.path.join(ROOT, "seeded", "NOTES.json")))
rows = ["| seed | what it changes (needs) | first run | now | caught by |", "|---|---|---|---|---|"]
for name in sorted(os.listdir(os.path.join(ROOT, "seeded"))):
    d = os.path.join(ROOT, "seeded", name)
    if not os.path.isdir(d):
        continue
    meta = json.load(open(os.path.join(d, "meta.json")))
    r = res.get(name, {})
    n = notes.get(name, {})
    now = "DETECTED" if r.get("detected") else ("missed" if r else "not run")
    by = ""
    if r.get("first_violations"):
        v = r["first_violations"][0]
        by = v.split(" params=")[0].replace("harness=", "") if v.startswith("harness=") else v[:40]
    what = (meta.get("summary", "")[:150] + " — needs: " + meta.get("needs", "")[:120]).replace("|", "/").replace("\n", " ")
    first = n.get("first", "")
    if n.get("strengthened"):
        first += " → " + n["strengthened"]
    rows.append("| %s | %s | %s | %s | %s |" % (name, what, first, now, by))
print("\n".join(rows))
