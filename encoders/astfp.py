"""Engine B — Python-AST -> SMT translator for straight-line float kernels.

The expression is read from the *live* source of /repo (inspect + ast) on every
run and translated twice:

  mode "fp"    : bit-precise IEEE-754 binary64 (z3 FloatingPoint, RNE; int() =
                 truncation via fpToSBV/RTZ, np.round = fpRoundToIntegral RNE).
                 Used to FIND violations (a model is a concrete input, replayed).
  mode "relax" : standard relative-error model over the reals: every float
                 operation  a o b  becomes (a o b)(1+d), |d| <= 2^-53, with a fresh
                 d per operation (valid in the absence of over/underflow, which the
                 stated input ranges exclude).  It over-approximates the float
                 behaviour, so UNSAT of a negated claim proves the claim for the
                 real floats; SAT proves nothing.

Values carry a kind: "int" (exact Python int; z3 Int) or "float".  Mixed
arithmetic follows Python: int op float converts the int (exactly, ranges are
asserted < 2^53), int / int is the correctly rounded quotient.

A kernel whose source does not fit the supported subset raises
UnsupportedKernel: the check reports a harness error, never a pass.
"""
from __future__ import annotations

import ast
import inspect
import textwrap

import z3

U = 2.0 ** -53


class UnsupportedKernel(Exception):
    pass


def find_function(module, qualname):
    """AST FunctionDef of `qualname` ('f' or 'outer.inner') in module's current source."""
    src = textwrap.dedent(inspect.getsource(module))
    tree = ast.parse(src)
    node = tree
    for part in qualname.split("."):
        found = None
        for n in ast.walk(node):
            if isinstance(n, (ast.FunctionDef,)) and n.name == part and n is not node:
                found = n
                break
        if found is None:
            raise UnsupportedKernel("function %s not found in %s" % (qualname, module.__name__))
        node = found
    return node


def return_expr(fn: ast.FunctionDef):
    rets = [n for n in ast.walk(fn) if isinstance(n, ast.Return)]
    if len(rets) != 1 or rets[0].value is None:
        raise UnsupportedKernel("%s: expected exactly one return" % fn.name)
    return rets[0].value


def assigned_expr(fn: ast.FunctionDef, target: str, index: int = 0):
    """value of the index-th assignment `target = <expr>` inside fn."""
    hits = []
    for n in ast.walk(fn):
        if isinstance(n, ast.Assign) and len(n.targets) == 1 and isinstance(n.targets[0], ast.Name) \
                and n.targets[0].id == target:
            hits.append(n)
    hits.sort(key=lambda n: (n.lineno, n.col_offset))
    if len(hits) <= index:
        raise UnsupportedKernel("%s: no assignment #%d to %s" % (fn.name, index, target))
    return hits[index].value


class Val:
    __slots__ = ("kind", "term")

    def __init__(self, kind, term):
        self.kind = kind
        self.term = term


class Translator:
    def __init__(self, mode: str, env: dict, solver: z3.Solver):
        assert mode in ("fp", "relax")
        self.mode = mode
        self.env = env  # name -> Val | python number | callable(translator, *Vals) -> Val
        self.s = solver
        self.n_delta = 0
        self.F = z3.Float64()
        self.RNE = z3.RNE()
        self.ops = 0

    # ---- helpers
    def const(self, c):
        if isinstance(c, bool):
            raise UnsupportedKernel("bool constant")
        if isinstance(c, int):
            return Val("int", z3.BitVecVal(c, 64) if self.mode == "fp" else z3.IntVal(c))
        if isinstance(c, float):
            if self.mode == "fp":
                return Val("float", z3.FPVal(c, self.F))
            import fractions

            fr = fractions.Fraction(c)
            return Val("float", z3.RealVal(str(fr)) if fr.denominator == 1 else z3.Q(fr.numerator, fr.denominator))
        raise UnsupportedKernel("constant %r" % (c,))

    def to_float(self, v: Val) -> Val:
        if v.kind == "float":
            return v
        if self.mode == "fp":
            return Val("float", z3.fpSignedToFP(self.RNE, v.term, self.F))  # ints are 64-bit vectors in fp mode (ranges asserted by callers)
        return Val("float", z3.ToReal(v.term))

    def _rnd(self, exact):
        """relax mode: exact real result of one float operation -> rounded result."""
        self.n_delta += 1
        d = z3.Real("d%d" % self.n_delta)
        self.s.add(d >= -U, d <= U)
        return exact * (1 + d)

    def binop(self, op, a: Val, b: Val) -> Val:
        self.ops += 1
        if a.kind == "int" and b.kind == "int" and not isinstance(op, ast.Div):
            if isinstance(op, ast.Add):
                return Val("int", a.term + b.term)
            if isinstance(op, ast.Sub):
                return Val("int", a.term - b.term)
            if isinstance(op, ast.Mult):
                return Val("int", a.term * b.term)
            raise UnsupportedKernel("int op %s" % type(op).__name__)
        fa, fb = self.to_float(a).term, self.to_float(b).term
        if self.mode == "fp":
            f = {ast.Add: z3.fpAdd, ast.Sub: z3.fpSub, ast.Mult: z3.fpMul, ast.Div: z3.fpDiv}.get(type(op))
            if f is None:
                raise UnsupportedKernel("float op %s" % type(op).__name__)
            return Val("float", f(self.RNE, fa, fb))
        if isinstance(op, ast.Add):
            ex = fa + fb
        elif isinstance(op, ast.Sub):
            ex = fa - fb
        elif isinstance(op, ast.Mult):
            ex = fa * fb
        elif isinstance(op, ast.Div):
            ex = fa / fb
        else:
            raise UnsupportedKernel("float op %s" % type(op).__name__)
        return Val("float", self._rnd(ex))

    def trunc_int(self, v: Val) -> Val:
        if v.kind == "int":
            return v
        if self.mode == "fp":
            return Val("int", z3.fpToSBV(z3.RTZ(), v.term, z3.BitVecSort(64)))
        x = v.term
        return Val("int", z3.If(x >= 0, z3.ToInt(x), -z3.ToInt(-x)))

    def round_half_even(self, v: Val) -> Val:
        """np.round / np.rint: float result with integral value."""
        if v.kind == "int":
            return v
        if self.mode == "fp":
            return Val("float", z3.fpRoundToIntegral(self.RNE, v.term))
        x = v.term
        f = z3.ToInt(x)
        d = x - z3.ToReal(f)
        r = z3.If(d < z3.RealVal("1/2"), f, z3.If(d > z3.RealVal("1/2"), f + 1, z3.If(f % 2 == 0, f, f + 1)))
        return Val("float", z3.ToReal(r))

    # ---- expression translation
    def tr(self, node) -> Val:
        if isinstance(node, ast.Constant):
            return self.const(node.value)
        if isinstance(node, ast.Name):
            if node.id not in self.env:
                raise UnsupportedKernel("free name %s" % node.id)
            v = self.env[node.id]
            return v if isinstance(v, Val) else self.const(v)
        if isinstance(node, ast.Subscript) and isinstance(node.slice, ast.Constant) and isinstance(node.slice.value, str):
            key = "[%s]" % node.slice.value
            if key not in self.env:
                raise UnsupportedKernel("free subscript %s" % key)
            v = self.env[key]
            return v if isinstance(v, Val) else self.const(v)
        if isinstance(node, ast.UnaryOp) and isinstance(node.op, ast.USub):
            v = self.tr(node.operand)
            if v.kind == "int":
                return Val("int", -v.term)
            return Val("float", z3.fpNeg(v.term) if self.mode == "fp" else -v.term)
        if isinstance(node, ast.BinOp):
            if isinstance(node.op, ast.Pow):
                try:
                    c = eval(compile(ast.Expression(node), "<k>", "eval"), {"__builtins__": {}})
                except Exception:
                    raise UnsupportedKernel("non-constant power")
                return self.const(c)
            return self.binop(node.op, self.tr(node.left), self.tr(node.right))
        if isinstance(node, ast.Call):
            fname = None
            if isinstance(node.func, ast.Name):
                fname = node.func.id
            elif isinstance(node.func, ast.Attribute) and isinstance(node.func.value, ast.Name):
                fname = node.func.value.id + "." + node.func.attr
            if node.keywords:
                raise UnsupportedKernel("keyword arguments in call to %s" % fname)
            args = [self.tr(a) for a in node.args]
            if fname == "int" and len(args) == 1:
                return self.trunc_int(args[0])
            if fname == "float" and len(args) == 1:
                return self.to_float(args[0])
            if fname in ("np.round", "np.rint", "round") and len(args) == 1:
                return self.round_half_even(args[0])
            if fname in self.env and callable(self.env[fname]):
                return self.env[fname](self, *args)
            raise UnsupportedKernel("call to %s" % fname)
        raise UnsupportedKernel("node %s" % type(node).__name__)


def int_var(name, lo, hi, solver, mode="relax"):
    if mode == "fp":
        v = z3.BitVec(name, 64)
        solver.add(v >= lo, v <= hi)  # signed comparisons
        return Val("int", v)
    v = z3.Int(name)
    solver.add(v >= lo, v <= hi)
    return Val("int", v)


def as_real(tr: Translator, v: Val):
    """exact real value of a Val (for stating the claim)."""
    if v.kind == "int":
        return z3.ToReal(v.term)
    return z3.fpToReal(v.term) if tr.mode == "fp" else v.term


def solve(solver: z3.Solver, timeout_s: float):
    import time

    solver.set("timeout", int(timeout_s * 1000))
    t0 = time.time()
    r = solver.check()
    return str(r), time.time() - t0
