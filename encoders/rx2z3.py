"""Engine C — Python `re` parse tree -> z3 regular expression.

Only constructs that occur in partitura's match-line patterns are supported
(literals, classes with ranges / negation / \\d \\s \\w, ., greedy and lazy
repeats, groups, alternation, anchors at the ends).  Anything else raises
UnsupportedRegex (the check then reports a harness error, not a pass).
Alphabet: printable ASCII 0x20..0x7e (match files are ASCII text; '.' and
negated classes range over this alphabet).
"""
from __future__ import annotations

import re

import z3

try:
    import re._parser as sre_parse
    import re._constants as sre_c
except ImportError:  # pragma: no cover
    import sre_parse
    import sre_constants as sre_c


class UnsupportedRegex(Exception):
    pass


LO, HI = 0x20, 0x7E


def _ch(c):
    return z3.Re(z3.StringVal(chr(c)))


def sigma():
    return z3.Range(chr(LO), chr(HI))


def any_string():
    return z3.Star(sigma())


def _category(cat):
    if cat == sre_c.CATEGORY_DIGIT:
        return [(ord("0"), ord("9"))]
    if cat == sre_c.CATEGORY_SPACE:
        return [(0x20, 0x20)]
    if cat == sre_c.CATEGORY_WORD:
        return [(ord("0"), ord("9")), (ord("A"), ord("Z")), (ord("a"), ord("z")), (ord("_"), ord("_"))]
    raise UnsupportedRegex("category %r" % (cat,))


def _class_ranges(items):
    neg = False
    rs = []
    for op, av in items:
        if op == sre_c.NEGATE:
            neg = True
        elif op == sre_c.LITERAL:
            rs.append((av, av))
        elif op == sre_c.RANGE:
            rs.append((av[0], av[1]))
        elif op == sre_c.CATEGORY:
            rs += _category(av)
        else:
            raise UnsupportedRegex("class item %r" % (op,))
    return neg, rs


def _ranges_to_re(rs):
    rs = [(max(a, LO), min(b, HI)) for a, b in rs if b >= LO and a <= HI]
    if not rs:
        return z3.Empty(z3.ReSort(z3.StringSort()))
    parts = [z3.Range(chr(a), chr(b)) for a, b in rs]
    return parts[0] if len(parts) == 1 else z3.Union(*parts)


def _complement_ranges(rs):
    rs = sorted((max(a, LO), min(b, HI)) for a, b in rs if b >= LO and a <= HI)
    out, cur = [], LO
    for a, b in rs:
        if a > cur:
            out.append((cur, a - 1))
        cur = max(cur, b + 1)
    if cur <= HI:
        out.append((cur, HI))
    return out


def class_contains(items_or_node, ch: str) -> bool:
    """does a one-character node (IN / NOT_LITERAL / ANY / LITERAL) accept ch ?"""
    op, av = items_or_node
    o = ord(ch)
    if op == sre_c.ANY:
        return True
    if op == sre_c.LITERAL:
        return av == o
    if op == sre_c.NOT_LITERAL:
        return av != o
    if op == sre_c.IN:
        neg, rs = _class_ranges(av)
        inside = any(a <= o <= b for a, b in rs)
        return inside != neg
    return True


def node_to_re(node):
    op, av = node
    if op == sre_c.LITERAL:
        return _ch(av)
    if op == sre_c.NOT_LITERAL:
        return _ranges_to_re(_complement_ranges([(av, av)]))
    if op == sre_c.ANY:
        return sigma()
    if op == sre_c.IN:
        neg, rs = _class_ranges(av)
        return _ranges_to_re(_complement_ranges(rs) if neg else rs)
    if op in (sre_c.MAX_REPEAT, sre_c.MIN_REPEAT):
        lo, hi, sub = av
        r = seq_to_re(sub)
        if hi == sre_c.MAXREPEAT:
            if lo == 0:
                return z3.Star(r)
            if lo == 1:
                return z3.Plus(r)
            return z3.Concat(z3.Loop(r, lo, lo), z3.Star(r))
        return z3.Loop(r, lo, hi)
    if op == sre_c.SUBPATTERN:
        return seq_to_re(av[3])
    if op == sre_c.BRANCH:
        alts = [seq_to_re(a) for a in av[1]]
        return alts[0] if len(alts) == 1 else z3.Union(*alts)
    if op == sre_c.AT:
        return z3.Re(z3.StringVal(""))  # anchors: handled by the caller (search vs match)
    raise UnsupportedRegex("regex op %r" % (op,))


def seq_to_re(seq):
    parts = [node_to_re(n) for n in seq]
    if not parts:
        return z3.Re(z3.StringVal(""))
    return parts[0] if len(parts) == 1 else z3.Concat(*parts)


def pattern_to_re(pat):
    """z3 regex of the language matched by a compiled pattern (as a full match of the pattern itself)."""
    src = pat.pattern if hasattr(pat, "pattern") else pat
    return seq_to_re(list(sre_parse.parse(src)))


def parse_tree(pat):
    src = pat.pattern if hasattr(pat, "pattern") else pat
    return sre_parse.parse(src)


def groups_in_order(pat):
    """[(group_name, sub-sequence, following_literal_string)] for the named groups of a flat pattern."""
    tree = list(parse_tree(pat))
    names = {v: k for k, v in (pat.groupindex.items() if hasattr(pat, "groupindex") else {})}
    out = []
    for i, (op, av) in enumerate(tree):
        if op == sre_c.SUBPATTERN and av[0] in names:
            lit = ""
            for (op2, av2) in tree[i + 1:]:
                if op2 == sre_c.LITERAL:
                    lit += chr(av2)
                else:
                    break
            out.append((names[av[0]], av[3], lit))
    return out


def lit(s: str):
    return z3.Re(z3.StringVal(s))


def is_empty(r, timeout_ms=20000):
    """emptiness of a regular language: returns ('unsat'|'sat'|'unknown', witness|None, seconds)"""
    import time

    s = z3.Solver()
    s.set("timeout", timeout_ms)
    x = z3.String("x")
    s.add(z3.InRe(x, r))
    t0 = time.time()
    res = s.check()
    dt = time.time() - t0
    w = None
    if res == z3.sat:
        w = s.model().eval(x, True).as_string()
    return str(res), w, dt


def members(r, n, timeout_ms=20000):
    """up to n distinct members of a regular language (solver generated)."""
    s = z3.Solver()
    s.set("timeout", timeout_ms)
    x = z3.String("x")
    s.add(z3.InRe(x, r))
    out = []
    while len(out) < n and s.check() == z3.sat:
        w = s.model().eval(x, True).as_string()
        out.append(w)
        s.add(x != z3.StringVal(w))
        # push variety: next member must differ in length or first differing char
        if len(out) % 2 == 0:
            s.add(z3.Length(x) != len(w))
    return out
