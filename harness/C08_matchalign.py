"""C08 — saving an alignment as a match file and loading it returns the same data.

Engine A on the in-memory chain  matchfile_from_alignment -> MatchFile ->
note_alignment_from_matchfile / performed_part_from_match / part_from_matchfile
(no text, no disk: the text layer is C07's).  The score part is concrete per
instance, the performance (onset / duration in milliseconds, velocities, pedal
times and values) is symbolic.  Engine B: the tick <-> seconds kernels
(shared with C06/C12) prove that performance times survive.
"""
from engine.hdef import H
from engine.sym import check, must_not_raise, require

# alignment label per score note / performed note, concrete per instance
SHAPES = {
    "mixed": [("match", "s1", "n1"), ("ornament", "s1", "n2"), ("deletion", "s2", None), ("match", "s3", "n3")],
    "all_match": [("match", "s1", "n1"), ("match", "s2", "n2"), ("match", "s3", "n3")],
    "match_del": [("match", "s1", "n1"), ("match", "s3", "n2"), ("deletion", "s2", None), ("insertion", None, "n3")],
}


def build_score(q=4, pickup=False):
    import partitura.score as S

    part = S.Part("P1", "piece", quarter_duration=q)
    part.add(S.TimeSignature(4, 4), 0)
    part.add(S.KeySignature(0, "major"), 0)
    bar = 4 * q
    first = q if pickup else bar
    part.add(S.Measure(number=1), 0, first)
    part.add(S.Measure(number=2), first, first + bar)
    part.add(S.KeySignature(-3, "minor"), first)  # a key change at the second barline
    n1 = S.Note("C", 4, id="s1", voice=1, staff=1)
    n2 = S.Note("E", 4, 1, id="s2", voice=1, staff=1)
    n3 = S.Note("G", 3, -1, id="s3", voice=2, staff=2)
    part.add(n1, 0, first)
    part.add(n2, first, first + 2 * q)
    part.add(n3, first + 2 * q, first + bar)
    return part, {"s1": (0, first), "s2": (first, 2 * q), "s3": (first + 2 * q, 2 * q)}, first


def make_chain(shape, ppq, mpq, pickup=False):
    align_spec = SHAPES[shape]

    def h(on1: int, du1: int, on2: int, du2: int, on3: int, du3: int, v1: int, v2: int, ped_t: int, ped_v: int, soft_v: int):
        import numpy as np
        from partitura import performance as P
        from partitura.io import exportmatch as EX
        from partitura.io import importmatch as IM

        for x in (on1, on2, on3, ped_t):
            require(0 <= x <= 10 ** 5)
        for d in (du1, du2, du3):
            require(1 <= d <= 10 ** 4)
        require(on1 < on2 < on3)  # performed in score order (the exporter sorts lines by interpolated score time)
        # matched notes are the knots of the performance->score time map (interpolation divides by their
        # differences): their onsets are pinned, the unmatched notes' onsets and all durations stay symbolic
        require(du2 == 100)
        require(du3 == 100)
        require(ped_t == 0)
        matched = [pid for (label, sid, pid) in align_spec if label == "match"]
        for pid, on, val in (("n1", on1, 0), ("n2", on2, 1000), ("n3", on3, 2000)):
            if pid in matched:
                require(on == val)
        require(1 <= v1 <= 127)
        require(1 <= v2 <= 127)
        require(0 <= ped_v <= 127)
        require(0 <= soft_v <= 127)
        spart, sinfo, first = build_score(pickup=pickup)
        ms = lambda x: x / 1000
        pnotes = [dict(id="n1", midi_pitch=60, note_on=ms(on1), note_off=ms(on1 + du1), velocity=v1, track=0, channel=1),
                  dict(id="n2", midi_pitch=65, note_on=ms(on2), note_off=ms(on2 + du2), velocity=v2, track=0, channel=1),
                  dict(id="n3", midi_pitch=54, note_on=ms(on3), note_off=ms(on3 + du3), velocity=64, track=0, channel=1)]
        controls = [dict(time=ms(ped_t), number=64, value=ped_v), dict(time=ms(ped_t), number=67, value=soft_v)]
        from engine import sym as _sym

        if _sym._ACTIVE["symbolic"]:
            # PerformedPart.note_array probes each note mapping with a (symbolic) tick as key: CrossHair's dict model
            # rejects symbolic keys, the association-list model answers "absent" without realising the number
            from envmodels.symdict import SymDictSub

            pnotes = [SymDictSub(d) for d in pnotes]
        ppart = P.PerformedPart(pnotes, id="pp", controls=controls, ppq=ppq, mpq=mpq)
        alignment = []
        for (label, sid, pid) in align_spec:
            d = dict(label=label)
            if sid:
                d["score_id"] = sid
            if pid:
                d["performance_id"] = pid
            if label == "ornament":
                d["type"] = "trill"
            alignment.append(d)
        mf = must_not_raise(EX.matchfile_from_alignment, alignment, ppart, spart, mpq=mpq, ppq=ppq,
                            assume_part_unfolded=True, _what="matchfile_from_alignment")
        # ---------------- alignment
        got = must_not_raise(IM.note_alignment_from_matchfile, mf, _what="note_alignment_from_matchfile")
        check(len(got) == len(alignment), "number of alignment entries", len(got), len(alignment))
        for a in alignment:
            hits = [g for g in got if g["label"] == a["label"] and g.get("score_id") == a.get("score_id")
                    and g.get("performance_id") == a.get("performance_id")]
            check(len(hits) == 1, "alignment entry lost or duplicated", a, got)
            if a["label"] == "ornament":
                t = hits[0].get("type")
                check(t == "trill" or t == ["trill"], "ornament type", t)
        # ---------------- performance
        pp2 = must_not_raise(IM.performed_part_from_match, mf, _what="performed_part_from_match")
        check(len(pp2.notes) == 3, "number of performed notes", len(pp2.notes))
        den = mpq * 1000

        def tick_ok(tick, msv):
            d = tick * den - 10 ** 6 * ppq * msv
            d = d if d >= 0 else -d
            return 2 * d <= den

        for pn, (on, du, vel) in zip(pnotes, ((on1, du1, v1), (on2, du2, v2), (on3, du3, 64))):
            hits = [n for n in pp2.notes if n["id"] == pn["id"]]
            check(len(hits) == 1, "performed note lost", pn["id"])
            n = hits[0]
            check(n["midi_pitch"] == pn["midi_pitch"] and n["velocity"] == vel, "pitch / velocity", pn["id"])
            check(tick_ok(n["note_on_tick"], on) and tick_ok(n["note_off_tick"], on + du), "onset/offset ticks", pn["id"])
            e1 = n["note_on"] * (10 ** 6 * ppq) - n["note_on_tick"] * mpq
            e1 = e1 if e1 >= 0 else -e1
            check(e1 <= 1e-6 * (mpq + n["note_on_tick"] * mpq), "onset seconds disagree with ticks under the file's clock", pn["id"])
        sus = [c for c in pp2.controls if c["number"] == 64]
        sof = [c for c in pp2.controls if c["number"] == 67]
        check(len(sus) == 1 and sus[0]["value"] == ped_v, "sustain pedal event")
        check(len(sof) == 1 and sof[0]["value"] == soft_v, "soft pedal event")
        check(pp2.ppq == ppq and pp2.mpq == mpq, "clock units / rate of the loaded performance", pp2.ppq, pp2.mpq)
        # ---------------- score (concrete per instance)
        sp2 = must_not_raise(IM.part_from_matchfile, mf, _what="part_from_matchfile")
        bm_old, bm_new = spart.beat_map, sp2.beat_map
        new_notes = {n.id: n for n in sp2.notes_tied}
        for sid, (on, du) in sinfo.items():
            check(sid in new_notes, "score note lost", sid, sorted(new_notes))
            n = new_notes[sid]
            o = [x for x in spart.notes if x.id == sid][0]
            check(n.step == o.step and (n.alter or 0) == (o.alter or 0) and n.octave == o.octave, "pitch spelling", sid)
            check(n.voice == o.voice and n.staff == o.staff, "voice / staff", sid, n.voice, n.staff)
            ob, db = float(bm_old(on)), float(bm_old(on + du)) - float(bm_old(on))
            nb = float(bm_new(n.start.t))
            ndb = float(bm_new(n.start.t + n.duration_tied)) - nb
            check(abs(nb - ob) < 1e-6 and abs(ndb - db) < 1e-6, "onset / duration in beats", sid, nb, ob, ndb, db)
        kss = sorted((float(bm_new(k.start.t)), k.fifths, k.mode) for k in sp2.iter_all(type(list(spart.iter_all(__import__("partitura").score.KeySignature))[0])))
        exp_ks = sorted((float(bm_old(k.start.t)), k.fifths, k.mode) for k in spart.iter_all(__import__("partitura").score.KeySignature))
        check(len(kss) == len(exp_ks), "number of key signatures", kss, exp_ks)
        for a, b in zip(kss, exp_ks):
            check(abs(a[0] - b[0]) < 1e-6 and a[1] == b[1] and a[2] == b[2], "key signature not at the bar where it was written", kss, exp_ks)
        m_old = sorted(float(bm_old(m.start.t)) for m in spart.iter_all(__import__("partitura").score.Measure))
        m_new = sorted(float(bm_new(m.start.t)) for m in sp2.iter_all(__import__("partitura").score.Measure))
        check(len(m_old) == len(m_new) and all(abs(a - b) < 1e-6 for a, b in zip(m_old, m_new)), "measure positions", m_old, m_new)
        return [[n["note_on_tick"], n["note_off_tick"]] for n in pp2.notes]

    return h


def _inst(tier):
    out = [{"shape": "mixed", "ppq": 500, "mpq": 500000}, {"shape": "all_match", "ppq": 1000, "mpq": 1000000},
           {"shape": "match_del", "ppq": 500, "mpq": 500000, "pickup": True}]
    if tier != "quick":
        out += [{"shape": "all_match", "ppq": 480, "mpq": 500000}, {"shape": "all_match", "ppq": 250, "mpq": 500000}, {"shape": "mixed", "ppq": 96, "mpq": 600000, "pickup": True}, {"shape": "all_match", "ppq": 1000, "mpq": 250000}]
    return out


def EXTRA(tier, seed):
    from harness import kernels

    return kernels.tick_roundtrip_obligations(tier)


EXTRA_INFO = [{"name": "tick_roundtrip (engine B)", "functions": ["music.seconds_to_midi_ticks", "music.midi_ticks_to_seconds (AST -> z3)"],
               "bounds": "ticks <= 2^24, seconds in [0, 10^5], listed ppq/mpq pairs; relative-error model of binary64",
               "outside": "other ppq/mpq pairs"}]

MODELS = ["syminterp", "symdict", "symppoly", "untraced_subclasses", "quiet_generic",
          "symnp:partitura.score,partitura.utils.generic,partitura.utils.music,partitura.performance,partitura.io.exportmatch,"
          "partitura.io.importmatch!,partitura.musicanalysis.performance_codec"]
HARNESSES = [
    H("chain", make_chain, _inst, models=MODELS, budget={"quick": 300, "thorough": 1500}, lazy_format=True,
      vectors=[{"on1": 0, "du1": 500, "on2": 1000, "du2": 400, "on3": 2000, "du3": 1500, "v1": 64, "v2": 80, "ped_t": 900, "ped_v": 127, "soft_v": 0},
               {"on1": 17, "du1": 1, "on2": 18, "du2": 9999, "on3": 99999, "du3": 3, "v1": 1, "v2": 127, "ped_t": 0, "ped_v": 0, "soft_v": 127}],
      functions=["exportmatch.matchfile_from_alignment", "importmatch.note_alignment_from_matchfile",
                 "importmatch.performed_part_from_match", "importmatch.part_from_matchfile", "importmatch.make_timesig_maps",
                 "performance_codec.get_time_maps_from_alignment", "performance_codec.get_matched_notes",
                 "music.seconds_to_midi_ticks", "music.midi_ticks_to_seconds"],
      bounds="one concrete two-measure score (with or without pickup, key change at the barline, two voices/staves, three "
             "notes) per instance; three performed notes with symbolic onset/duration (ms), two symbolic velocities, one "
             "sustain and one soft pedal event with symbolic time/value; alignment shapes mixing match / deletion / "
             "insertion / ornament; listed ppq/mpq; in-memory MatchFile (no text); performed-note ids of the form n<k> (the format prefixes other ids with n)",
      outside="the text of the file and reading it (C07 covers lines), duplicate-id resolution of load_matchfile, "
              "historical fixture files, larger scores; score reconstruction is exercised on the concrete shapes only"),
]
