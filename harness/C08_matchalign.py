"""C08 — saving an alignment as a match file and loading it returns the same data.

Engine A on the in-memory chain  matchfile_from_alignment -> MatchFile ->
note_alignment_from_matchfile / performed_part_from_match / part_from_matchfile
(no text, no disk: the text layer is C07's).  The score part is concrete per
instance, the performance (onset / duration in milliseconds, velocities, pedal
times and values) is symbolic.  Engine B: the tick <-> seconds kernels
(shared with C06/C12) prove that performance times survive.
"""
from engine.hdef import H
from engine.sym import check, must_not_raise, require

# alignment label per score note / performed note, concrete per instance
SHAPES = {
    "mixed": [("match", "s1", "n1"), ("ornament", "s1", "n2"), ("deletion", "s2", None), ("match", "s3", "n3")],
    "all_match": [("match", "s1", "n1"), ("match", "s2", "n2"), ("match", "s3", "n3")],
    "match_del": [("match", "s1", "n1"), ("match", "s3", "n2"), ("deletion", "s2", None), ("insertion", None, "n3")],
}


def build_score_tsreturn(q=4):
    """4/4 | 3/4 | 4/4 : a time signature that returns to an earlier one; one note per bar."""
    import partitura.score as S

    part = S.Part("P1", "piece", quarter_duration=q)
    part.add(S.KeySignature(0, "major"), 0)
    b1, b2, b3 = 4 * q, 7 * q, 11 * q
    part.add(S.TimeSignature(4, 4), 0)
    part.add(S.TimeSignature(3, 4), b1)
    part.add(S.TimeSignature(4, 4), b2)
    part.add(S.Measure(number=1), 0, b1)
    part.add(S.Measure(number=2), b1, b2)
    part.add(S.Measure(number=3), b2, b3)
    part.add(S.Note("C", 4, id="s1", voice=1, staff=1), 0, b1)
    part.add(S.Note("E", 4, 1, id="s2", voice=1, staff=1), b1, b2)
    part.add(S.Note("G", 3, -1, id="s3", voice=2, staff=2), b2, b3)
    return part, {"s1": (0, b1), "s2": (b1, 3 * q), "s3": (b2, 4 * q)}, b1


def build_score(q=4, pickup=False, ts_return=False):
    import partitura.score as S

    if ts_return:
        return build_score_tsreturn(q)
    part = S.Part("P1", "piece", quarter_duration=q)
    part.add(S.TimeSignature(4, 4), 0)
    part.add(S.KeySignature(0, "major"), 0)
    bar = 4 * q
    first = q if pickup else bar
    part.add(S.Measure(number=1), 0, first)
    part.add(S.Measure(number=2), first, first + bar)
    part.add(S.KeySignature(-3, "minor"), first)  # a key change at the second barline
    n1 = S.Note("C", 4, id="s1", voice=1, staff=1)
    n2 = S.Note("E", 4, 1, id="s2", voice=1, staff=1)
    n3 = S.Note("G", 3, -1, id="s3", voice=2, staff=2)
    part.add(n1, 0, first)
    part.add(n2, first, first + 2 * q)
    part.add(n3, first + 2 * q, first + bar)
    return part, {"s1": (0, first), "s2": (first, 2 * q), "s3": (first + 2 * q, 2 * q)}, first


def make_chain(shape, ppq, mpq, pickup=False, ts_return=False):
    align_spec = SHAPES[shape]

    def h(on1: int, du1: int, on2: int, du2: int, on3: int, du3: int, v1: int, v2: int, ped_t: int, ped_v: int, soft_v: int):
        import numpy as np
        from partitura import performance as P
        from partitura.io import exportmatch as EX
        from partitura.io import importmatch as IM

        for x in (on1, on2, on3, ped_t):
            require(0 <= x <= 10 ** 5)
        for d in (du1, du2, du3):
            require(0 <= d <= 10 ** 4)  # zero-length (ghost) notes included
        require(on1 < on2 < on3)  # performed in score order (the exporter sorts lines by interpolated score time)
        # matched notes are the knots of the performance->score time map (interpolation divides by their
        # differences): their onsets are pinned, the unmatched notes' onsets and all durations stay symbolic
        matched = [pid for (label, sid, pid) in align_spec if label == "match"]
        if "n2" in matched:
            require(du2 == 100)
        else:
            # an unmatched n2 keeps its duration symbolic and starts off the tick grid (one symbolic per rounding:
            # onset and offset both symbolic and off the grid did not finish)
            require(on2 == 1335)
            require(du1 == 100)
        require(du3 == 100)
        require(ped_t == 0)
        for pid, on, val in (("n1", on1, 0), ("n2", on2, 1000), ("n3", on3, 2000)):
            if pid in matched:
                require(on == val)
        require(1 <= v1 <= 127)
        require(1 <= v2 <= 127)
        require(0 <= ped_v <= 127)
        require(0 <= soft_v <= 127)
        spart, sinfo, first = build_score(pickup=pickup, ts_return=ts_return)
        ms = lambda x: x / 1000
        pnotes = [dict(id="n1", midi_pitch=60, note_on=ms(on1), note_off=ms(on1 + du1), velocity=v1, track=0, channel=1),
                  dict(id="n2", midi_pitch=65, note_on=ms(on2), note_off=ms(on2 + du2), velocity=v2, track=0, channel=1),
                  dict(id="n3", midi_pitch=54, note_on=ms(on3), note_off=ms(on3 + du3), velocity=64, track=0, channel=1)]
        controls = [dict(time=ms(ped_t), number=64, value=ped_v), dict(time=ms(ped_t), number=67, value=soft_v)]
        from engine import sym as _sym

        if _sym._ACTIVE["symbolic"]:
            # PerformedPart.note_array probes each note mapping with a (symbolic) tick as key: CrossHair's dict model
            # rejects symbolic keys, the association-list model answers "absent" without realising the number
            from envmodels.symdict import SymDictSub

            pnotes = [SymDictSub(d) for d in pnotes]
        ppart = P.PerformedPart(pnotes, id="pp", controls=controls, ppq=ppq, mpq=mpq)
        alignment = []
        for (label, sid, pid) in align_spec:
            d = dict(label=label)
            if sid:
                d["score_id"] = sid
            if pid:
                d["performance_id"] = pid
            if label == "ornament":
                d["type"] = "trill"
            alignment.append(d)
        mf = must_not_raise(EX.matchfile_from_alignment, alignment, ppart, spart, mpq=mpq, ppq=ppq,
                            assume_part_unfolded=True, _what="matchfile_from_alignment")
        # ---------------- alignment
        got = must_not_raise(IM.note_alignment_from_matchfile, mf, _what="note_alignment_from_matchfile")
        check(len(got) == len(alignment), "number of alignment entries", len(got), len(alignment))
        for a in alignment:
            hits = [g for g in got if g["label"] == a["label"] and g.get("score_id") == a.get("score_id")
                    and g.get("performance_id") == a.get("performance_id")]
            check(len(hits) == 1, "alignment entry lost or duplicated", a, got)
            if a["label"] == "ornament":
                t = hits[0].get("type")
                check(t == "trill" or t == ["trill"], "ornament type", t)
        # ---------------- performance
        pp2 = must_not_raise(IM.performed_part_from_match, mf, _what="performed_part_from_match")
        check(len(pp2.notes) == 3, "number of performed notes", len(pp2.notes))
        den = mpq * 1000

        def tick_ok(tick, msv):
            d = tick * den - 10 ** 6 * ppq * msv
            d = d if d >= 0 else -d
            return 2 * d <= den

        for pn, (on, du, vel) in zip(pnotes, ((on1, du1, v1), (on2, du2, v2), (on3, du3, 64))):
            hits = [n for n in pp2.notes if n["id"] == pn["id"]]
            check(len(hits) == 1, "performed note lost", pn["id"])
            n = hits[0]
            check(n["midi_pitch"] == pn["midi_pitch"] and n["velocity"] == vel, "pitch / velocity", pn["id"])
            check(tick_ok(n["note_on_tick"], on) and tick_ok(n["note_off_tick"], on + du), "onset/offset ticks", pn["id"])
            e1 = n["note_on"] * (10 ** 6 * ppq) - n["note_on_tick"] * mpq
            e1 = e1 if e1 >= 0 else -e1
            check(e1 <= 1e-6 * (mpq + n["note_on_tick"] * mpq), "onset seconds disagree with ticks under the file's clock", pn["id"])
        sus = [c for c in pp2.controls if c["number"] == 64]
        sof = [c for c in pp2.controls if c["number"] == 67]
        check(len(sus) == 1 and sus[0]["value"] == ped_v, "sustain pedal event")
        check(len(sof) == 1 and sof[0]["value"] == soft_v, "soft pedal event")
        check(pp2.ppq == ppq and pp2.mpq == mpq, "clock units / rate of the loaded performance", pp2.ppq, pp2.mpq)
        # ---------------- score (concrete per instance)
        sp2 = must_not_raise(IM.part_from_matchfile, mf, _what="part_from_matchfile")
        bm_old, bm_new = spart.beat_map, sp2.beat_map
        new_notes = {n.id: n for n in sp2.notes_tied}
        for sid, (on, du) in sinfo.items():
            check(sid in new_notes, "score note lost", sid, sorted(new_notes))
            n = new_notes[sid]
            o = [x for x in spart.notes if x.id == sid][0]
            check(n.step == o.step and (n.alter or 0) == (o.alter or 0) and n.octave == o.octave, "pitch spelling", sid)
            check(n.voice == o.voice and n.staff == o.staff, "voice / staff", sid, n.voice, n.staff)
            ob, db = float(bm_old(on)), float(bm_old(on + du)) - float(bm_old(on))
            nb = float(bm_new(n.start.t))
            ndb = float(bm_new(n.start.t + n.duration_tied)) - nb
            check(abs(nb - ob) < 1e-6 and abs(ndb - db) < 1e-6, "onset / duration in beats", sid, nb, ob, ndb, db)
        kss = sorted((float(bm_new(k.start.t)), k.fifths, k.mode) for k in sp2.iter_all(type(list(spart.iter_all(__import__("partitura").score.KeySignature))[0])))
        exp_ks = sorted((float(bm_old(k.start.t)), k.fifths, k.mode) for k in spart.iter_all(__import__("partitura").score.KeySignature))
        check(len(kss) == len(exp_ks), "number of key signatures", kss, exp_ks)
        for a, b in zip(kss, exp_ks):
            check(abs(a[0] - b[0]) < 1e-6 and a[1] == b[1] and a[2] == b[2], "key signature not at the bar where it was written", kss, exp_ks)
        TS = __import__("partitura").score.TimeSignature
        ts_old = sorted((float(bm_old(t.start.t)), t.beats, t.beat_type) for t in spart.iter_all(TS))
        ts_new = sorted((float(bm_new(t.start.t)), t.beats, t.beat_type) for t in sp2.iter_all(TS))
        check(len(ts_old) == len(ts_new), "number of time signatures", ts_new, ts_old)
        for a, b in zip(ts_new, ts_old):
            check(abs(a[0] - b[0]) < 1e-6 and a[1] == b[1] and a[2] == b[2], "time signature not at the bar where it was written", ts_new, ts_old)
        m_old = sorted(float(bm_old(m.start.t)) for m in spart.iter_all(__import__("partitura").score.Measure))
        m_new = sorted(float(bm_new(m.start.t)) for m in sp2.iter_all(__import__("partitura").score.Measure))
        check(len(m_old) == len(m_new) and all(abs(a - b) < 1e-6 for a, b in zip(m_old, m_new)), "measure positions", m_old, m_new)
        return [[n["note_on_tick"], n["note_off_tick"]] for n in pp2.notes]

    return h


def _inst(tier):
    # (ppq 96, mpq 600000: a tick is 6.25 ms, so performed times are off the tick grid)
    out = [{"shape": "mixed", "ppq": 96, "mpq": 600000}, {"shape": "all_match", "ppq": 1000, "mpq": 1000000},
           {"shape": "match_del", "ppq": 500, "mpq": 500000, "pickup": True},
           {"shape": "all_match", "ppq": 96, "mpq": 600000, "ts_return": True}]
    if tier != "quick":
        out += [{"shape": "mixed", "ppq": 500, "mpq": 500000}, {"shape": "all_match", "ppq": 480, "mpq": 500000}, {"shape": "all_match", "ppq": 250, "mpq": 500000}, {"shape": "mixed", "ppq": 96, "mpq": 600000, "pickup": True}, {"shape": "all_match", "ppq": 1000, "mpq": 250000}]
    return out


HEADER = ["info(matchFileVersion,1.0.0).", "info(piece,-).", "info(scoreFileName,-).", "info(midiFileName,-).",
          "info(composer,-).", "info(performer,-).", "info(midiClockUnits,500).", "info(midiClockRate,500000).",
          "scoreprop(keySignature,C,1:1,0,0.0000).", "scoreprop(timeSignature,4/4,1:1,0,0.0000)."]
SN = "snote(s{sid},[C,n],4,1:1,0,1,0.0000,4.0000,[v1,staff1])"
NO = "note(n{pid},60,{on},{off},64,1,0)"


def make_dedupe(kinds):
    """load_matchfile on a file whose note lines have the concrete kinds ``kinds`` (M match, D deletion, I insertion)
    and symbolic score / performance ids drawn from a small pool, so that every pattern of coinciding ids is a path."""
    k = len(kinds)

    def h(a0: int, a1: int, a2: int, a3: int, a4: int, b0: int, b1: int, b2: int, b3: int, b4: int):
        import os
        import tempfile
        from engine import sym as _sym
        from partitura.io import importmatch as IM
        from partitura.io import matchfile_base as MB

        A, B = [a0, a1, a2, a3, a4], [b0, b1, b2, b3, b4]
        for i in range(5):
            used_a = i < k and kinds[i] in "MD"
            used_b = i < k and kinds[i] in "MI"
            require(0 <= A[i] <= 1 if used_a else A[i] == 0)
            require(0 <= B[i] <= 1 if used_b else B[i] == 0)
        A = [_sym.realize(x) for x in A]  # ids end up in text: enumeration by realisation
        B = [_sym.realize(x) for x in B]
        lines = []
        for i, kd in enumerate(kinds):
            if kd == "M":
                lines.append((kd, A[i], B[i], SN.format(sid=A[i]) + "-" + NO.format(pid=B[i], on=100 * i, off=100 * i + 50) + "."))
            elif kd == "D":
                lines.append((kd, A[i], None, SN.format(sid=A[i]) + "-deletion."))
            else:
                lines.append((kd, None, B[i], "insertion-" + NO.format(pid=B[i], on=100 * i, off=100 * i + 50) + "."))
        # (not mkstemp: CrossHair makes the random file name symbolic)
        fn = os.path.join(tempfile.gettempdir(), "verif_c08_%d_%s.match" % (os.getpid(), kinds))
        try:
            with open(fn, "w") as f:
                f.write("\n".join(HEADER + [l[3] for l in lines]) + "\n")
            mf = must_not_raise(IM.load_matchfile, fn, _what="load_matchfile")
        finally:
            os.unlink(fn)
        # reference: the documented resolution
        seen, uniq = set(), []
        for l in lines:
            if l[3] not in seen:
                seen.add(l[3])
                uniq.append(l)
        cnt = {}
        for l in uniq:
            if l[1] is not None:
                cnt[l[1]] = cnt.get(l[1], 0) + 1
        uniq = [l for l in uniq if not (l[0] == "D" and cnt[l[1]] > 1)]
        cnt = {}
        for l in uniq:
            if l[2] is not None:
                cnt[l[2]] = cnt.get(l[2], 0) + 1
        exp = [(l[0], l[1], l[2]) for l in uniq if not (l[0] == "I" and cnt[l[2]] > 1)]
        got = []
        for l in mf.lines:
            if isinstance(l, MB.BaseSnoteNoteLine):
                got.append(("M", int(l.snote.Anchor[1:]), int(l.note.Id[1:])))
            elif isinstance(l, MB.BaseDeletionLine):
                got.append(("D", int(l.snote.Anchor[1:]), None))
            elif isinstance(l, MB.BaseInsertionLine):
                got.append(("I", None, int(l.note.Id[1:])))
        check(got == exp, "note lines after load_matchfile differ from the documented duplicate resolution", got, exp)
        al = must_not_raise(IM.note_alignment_from_matchfile, mf, _what="note_alignment_from_matchfile")
        check(len(al) == len(exp), "alignment entries vs note lines", len(al), len(exp))
        return [list(map(str, g)) for g in got]

    return h


def _inst_dedupe(tier):
    ks = ["DMIM", "MDDI", "IDMIM", "DIDIM", "MMDI"]
    if tier != "quick":
        ks += ["DDIIM", "MIMDD", "IMDMI", "DMDMI", "MDIDM"]
    return [{"kinds": k} for k in ks]


def EXTRA(tier, seed):
    from harness import kernels

    return kernels.tick_roundtrip_obligations(tier)


EXTRA_INFO = [{"name": "tick_roundtrip (engine B)", "functions": ["music.seconds_to_midi_ticks", "music.midi_ticks_to_seconds (AST -> z3)"],
               "bounds": "ticks <= 2^24, seconds in [0, 10^5], listed ppq/mpq pairs; relative-error model of binary64",
               "outside": "other ppq/mpq pairs"}]

MODELS = ["syminterp", "symdict", "symppoly", "untraced_subclasses", "quiet_generic",
          "symnp:partitura.score,partitura.utils.generic,partitura.utils.music,partitura.performance,partitura.io.exportmatch,"
          "partitura.io.importmatch!,partitura.musicanalysis.performance_codec"]
HARNESSES = [
    H("chain", make_chain, _inst, models=MODELS, budget={"quick": 300, "thorough": 1500}, lazy_format=True,
      vectors=[{"on1": 0, "du1": 500, "on2": 1000, "du2": 400, "on3": 2000, "du3": 1500, "v1": 64, "v2": 80, "ped_t": 900, "ped_v": 127, "soft_v": 0},
               {"on1": 17, "du1": 1, "on2": 18, "du2": 9999, "on3": 99999, "du3": 3, "v1": 1, "v2": 127, "ped_t": 0, "ped_v": 0, "soft_v": 127}],
      functions=["exportmatch.matchfile_from_alignment", "importmatch.note_alignment_from_matchfile",
                 "importmatch.performed_part_from_match", "importmatch.part_from_matchfile", "importmatch.make_timesig_maps",
                 "performance_codec.get_time_maps_from_alignment", "performance_codec.get_matched_notes",
                 "music.seconds_to_midi_ticks", "music.midi_ticks_to_seconds"],
      bounds="one concrete two-measure score (with or without pickup, key change at the barline, two voices/staves, three "
             "notes) per instance; three performed notes with symbolic onset/duration (ms), two symbolic velocities, one "
             "sustain and one soft pedal event with symbolic time/value; alignment shapes mixing match / deletion / "
             "insertion / ornament; listed ppq/mpq; in-memory MatchFile (no text); performed-note ids of the form n<k> (the format prefixes other ids with n)",
      outside="the text of the file and reading it (C07 covers lines; duplicate-id resolution is harness dedupe), "
              "historical fixture files, larger scores; score reconstruction is exercised on the concrete shapes only"),
    H("dedupe", make_dedupe, _inst_dedupe, models=["quiet_generic"], budget={"quick": 120, "thorough": 400}, reals_only=False,
      vectors=[{"a0": 0, "a1": 0, "a2": 0, "a3": 1, "a4": 0, "b0": 0, "b1": 0, "b2": 1, "b3": 1, "b4": 0}],
      functions=["importmatch.load_matchfile", "importmatch.validate_match_ids", "importmatch.parse_matchline",
                 "importmatch.note_alignment_from_matchfile"],
      bounds="files of up to 5 note lines whose kinds (match / deletion / insertion) are concrete per instance and whose score "
             "and performance ids are symbolic over a pool of 2 (every coincidence pattern is a path; ids are realised "
             "because they are written into the text)",
      outside="longer files, ornament / trill lines in conflicts, several conflicting matches (documented as unhandled)"),
]
