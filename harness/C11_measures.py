"""C11 — adding measures and tying notes normalise notation without changing what sounds.

Engine A: (a) `estimate_symbolic_duration` / `symbolic_to_numeric_duration`
round trip with symbolic numeric duration for a list of divisions values;
(b) `add_measures` on a timeline with symbolic end, a second time signature at a
symbolic position and an optional pre-existing measure at a symbolic position;
(c) `find_tie_split` pieces tile the interval and each piece evaluates to its
length.
"""
import inspect

from engine.hdef import H, exclude_known
from engine.sym import check, must_not_raise, require

EPS = 1e-3


def make_estimate(div):
    step = max(1, div // 32)

    def h(dur: int):
        from partitura.utils import music as M
        from engine import sym

        # the tuplet search loop divides by dur/div (non-linear): the numeric duration is enumerated by the
        # solver on a grid that contains every table value and its neighbours: dur = k*step + {-1, 0, 1}
        require(0 <= dur <= (8 * div if step == 1 else 4 * div + 2 * step))
        r = dur % step
        require(r == 0 or r == 1 or r == step - 1)
        dur = sym.realize(dur)
        s = must_not_raise(M.estimate_symbolic_duration, dur, div, _what="estimate_symbolic_duration")
        if dur == 0:
            check(s == {}, "zero duration has no notated value")
            return "{}"
        if not s:
            return "{}"
        back = must_not_raise(M.symbolic_to_numeric_duration, s, div, _what="symbolic_to_numeric_duration")
        diff = back - dur
        diff = diff if diff >= 0 else -diff
        # recorded finding: the estimator accepts a table value within eps=1e-3 quarters of dur/div that is not equal
        exclude_known("KF-C11-estimate-tolerance", diff > 1e-9 * (1 + dur) and diff < EPS * div * 1.000001)
        # recorded finding: the tuplet search accepts a ratio whose actual_notes is within eps of an integer k, i.e. a
        # duration off by up to (dur/div) * eps / k quarters
        exclude_known("KF-C11-estimate-tuplet-tolerance",
                      "actual_notes" in s and diff > 1e-9 * (1 + dur) and diff * s["actual_notes"] < dur * EPS * 1.000001)
        check(diff <= 1e-9 * (1 + dur), "estimated symbolic duration does not evaluate to the numeric duration", dur, div, s, back)
        return M.format_symbolic_duration(s)

    return h


def make_tie_split(div):
    def h(start: int, length: int):
        from partitura.utils import music as M
        from engine import sym

        require(0 <= start <= 2 * div)
        require(1 <= length <= 4 * div)
        start, length = sym.realize(start), sym.realize(length)  # np.arange on the arguments: enumerated
        end = start + length
        res = must_not_raise(M.find_tie_split, start, end, div, _what="find_tie_split")
        if res is None:
            return "none"
        check(res[0][0] == start and res[-1][1] == end, "pieces do not cover [start, end]", start, end, res)
        for (a, b, s), nxt in zip(res, list(res[1:]) + [None]):
            check(a < b, "empty piece", res)
            if nxt is not None:
                check(b == nxt[0], "pieces do not tile the interval", res)
            check(bool(s), "piece without a notated value", res)
            back = M.symbolic_to_numeric_duration(s, div)
            d = back - (b - a)
            d = d if d >= 0 else -d
            exclude_known("KF-C11-estimate-tolerance", d > 1e-9 and d < EPS * div * 1.000001)
            check(d <= 1e-9 * (1 + b - a), "piece's notated value does not evaluate to its length", a, b, s, back)
        check(len(res) <= 4, "more than three split points")
        return len(res)

    return h


def make_add_measures(q, ts0, ts1, existing, pin_t1=False):
    """ts0 at 0; optional ts1 at symbolic time; optional existing measure at symbolic [ms, me)."""
    names = ["end"] + (["t1"] if ts1 else []) + (["ms", "ml"] if existing else [])
    bar0 = ts0[0] * 4 * q // ts0[1]
    bar1 = (ts1[0] * 4 * q // ts1[1]) if ts1 else None

    def h(**kw):
        import partitura.score as S

        end = kw["end"]
        require(1 <= end <= ((bar0 + 2 * bar1) if pin_t1 else (3 * bar0 + (2 * bar1 if ts1 else 0))))
        part = S.Part("P", quarter_duration=q)
        part.add(S.TimeSignature(*ts0), 0)
        part.add(S.Note("C", 4, id="n"), 0, end)
        t1 = None
        if ts1:
            t1 = kw["t1"]
            require(0 < t1 < end)
            if pin_t1:
                require(t1 == bar0)  # quick tier: the change sits on the first barline
            part.add(S.TimeSignature(*ts1), t1)
        ex = None
        if existing:
            ms, ml = kw["ms"], kw["ml"]
            require(0 <= ms)
            require(1 <= ml <= bar0)
            require(ms + ml <= end)
            ex = S.Measure(number=99)
            part.add(ex, ms, ms + ml)
        must_not_raise(S.add_measures, part, _what="add_measures")
        meas = list(part.iter_all(S.Measure))
        meas.sort(key=lambda m: m.start.t)
        check(len(meas) >= 1, "no measures added")
        check(meas[0].start.t == 0, "first measure does not start at the start of the timeline", meas[0].start.t)
        check(meas[-1].end.t == end, "last measure does not end at the end of the timeline", meas[-1].end.t, end)
        for a, b in zip(meas[:-1], meas[1:]):
            check(a.end.t == b.start.t, "measures do not tile the timeline (gap or overlap)", a.end.t, b.start.t)
        if ex is not None:
            check(any(m is ex for m in meas) and ex.start.t == ms and ex.end.t == ms + ml, "existing measure moved or lost")
        for i, m in enumerate(meas):
            check(m.number == i + 1, "measures not numbered consecutively in time order", [x.number for x in meas])
            L = m.end.t - m.start.t
            check(L >= 1, "empty measure")
            if m is ex:
                continue
            bar = bar1 if (ts1 and m.start.t >= t1) else bar0
            check(L <= bar, "added measure longer than the time signature in force implies", m.start.t, L, bar)
            if L < bar:
                cut = (m.end.t == end) or (ts1 and m.end.t == t1) or (ex is not None and m.end.t == ex.start.t)
                check(cut, "short measure that is not cut by the end, a signature change or an existing measure",
                      m.start.t, m.end.t)
            if ts1 and m is not ex:
                check(not (m.start.t < t1 and m.end.t > t1), "added measure straddles a time-signature change", m.start.t, m.end.t, t1)
        return [[int(m.start.t), int(m.end.t), int(m.number)] for m in meas]

    h.__signature__ = inspect.Signature([inspect.Parameter(n, inspect.Parameter.KEYWORD_ONLY, annotation=int) for n in names])
    return h


def make_tie_notes(q0, q1, ts=(4, 4), nbars=3, slur=False):
    """tie_notes on a part with explicit measures (divisions q0 in the first bar, q1 from the second barline on) and
    one note with symbolic onset and duration (realised: the duration estimator searches tables with dur/div) next to a
    fixed note in another voice."""
    B0 = ts[0] * 4 * q0 // ts[1]
    B1 = ts[0] * 4 * q1 // ts[1]
    total = B0 + (nbars - 1) * B1

    def h(on: int, dur: int):
        import partitura.score as S
        from partitura.utils import music as M
        from engine import sym

        require(0 <= on < B0 + B1)
        require(1 <= dur)
        require(on + dur <= total)
        on, dur = int(sym.realize(on)), int(sym.realize(dur))
        part = S.Part("P", quarter_duration=q0)
        part.add(S.TimeSignature(*ts), 0)
        if q1 != q0:
            part.set_quarter_duration(B0, q1)
        bars = [(0, B0)] + [(B0 + i * B1, B0 + (i + 1) * B1) for i in range(nbars - 1)]
        for i, (a, b) in enumerate(bars):
            part.add(S.Measure(number=i + 1), a, b)
        n = S.Note("F", 4, 1, id="n1", voice=1, staff=1)  # ids of the form n<k>: derived ids append a letter
        part.add(n, on, on + dur)
        other = S.Note("C", 3, None, id="n2", voice=2, staff=2, symbolic_duration={"type": "quarter"})
        part.add(other, 0, q0)
        sl = None
        if slur:
            sl = S.Slur(start_note=other, end_note=n)
            part.add(sl, other.start.t, n.end.t)
        before = [(int(r["onset_div"]), int(r["duration_div"]), int(r["pitch"])) for r in part.note_array()]
        must_not_raise(S.tie_notes, part, _what="tie_notes")
        after = [(int(r["onset_div"]), int(r["duration_div"]), int(r["pitch"])) for r in part.note_array()]
        check(before == after, "tie_notes changed the sounding notes", before, after)
        notes = list(part.iter_all(S.Note))
        ids = [x.id for x in notes]
        check(len(set(ids)) == len(ids), "note ids are not unique after tying", ids)
        qmap = part.quarter_duration_map
        chain = [x for x in notes if x.step == "F"]
        chain.sort(key=lambda x: x.start.t)
        check(chain and chain[0] is n, "the original note is not the first of its tie chain")
        check(chain[0].start.t == on and chain[-1].end.t == on + dur, "the tie chain does not cover the original note",
              [(x.start.t, x.end.t) for x in chain])
        check(chain[0].tie_prev is None and chain[-1].tie_next is None, "open tie at the chain ends")
        for a, b in zip(chain[:-1], chain[1:]):
            check(a.end.t == b.start.t, "tie chain is not contiguous", a.end.t, b.start.t)
            check(a.tie_next is b and b.tie_prev is a, "tie links do not follow the chain")
            check((b.step, b.alter, b.octave, b.voice, b.staff) == (n.step, n.alter, n.octave, n.voice, n.staff),
                  "tied piece differs in pitch, voice or staff")
        for x in chain:
            inside = [m for (m) in bars if m[0] <= x.start.t and x.end.t <= m[1]]
            check(len(inside) >= 1, "a note crosses a barline after tie_notes", x.start.t, x.end.t)
            sd = x.symbolic_duration
            if sd:
                div = int(qmap(x.start.t))
                check(div == (q0 if x.start.t < B0 else q1), "divisions in force", div)
                back = M.symbolic_to_numeric_duration(sd, div)
                d = back - (x.end.t - x.start.t)
                d = d if d >= 0 else -d
                check(d <= 1e-6, "the symbolic duration assigned by tie_notes does not evaluate to the note's numeric duration",
                      x.start.t, x.end.t, div, sd, back)
        if sl is not None:
            check(sl.end_note is chain[-1], "a slur ending on the note does not end on the last tied piece")
            check(sl.start_note is other, "slur start changed")
        return [[int(x.start.t), int(x.end.t), M.format_symbolic_duration(x.symbolic_duration) if x.symbolic_duration else ""] for x in chain]

    return h


def _tn_inst(tier):
    out = [{"q0": 2, "q1": 2}, {"q0": 2, "q1": 4, "slur": True}]
    if tier != "quick":
        out += [{"q0": 4, "q1": 4, "slur": True}, {"q0": 4, "q1": 2}, {"q0": 3, "q1": 6, "ts": [3, 4]}, {"q0": 4, "q1": 4, "ts": [6, 8], "nbars": 4},
                {"q0": 1, "q1": 1, "nbars": 4}]
    return out


DIVS_Q = [1, 2, 3, 4, 6, 8, 12, 16, 24, 48, 96, 480]
DIVS_T = [1, 2, 3, 4, 5, 6, 8, 10, 12, 16, 24, 32, 48, 96, 120, 240, 480, 960]


def _am_inst(tier):
    out = [{"q": 2, "ts0": [4, 4], "ts1": None, "existing": False}, {"q": 2, "ts0": [3, 4], "ts1": [2, 4], "existing": False, "pin_t1": True},
           {"q": 4, "ts0": [6, 8], "ts1": None, "existing": True},
           {"q": 1, "ts0": [2, 4], "ts1": [3, 4], "existing": True, "pin_t1": True}]
    if tier != "quick":
        out += [{"q": 2, "ts0": [3, 4], "ts1": [2, 4], "existing": False}, {"q": 1, "ts0": [4, 4], "ts1": [3, 4], "existing": True}, {"q": 3, "ts0": [2, 2], "ts1": None, "existing": True},
                {"q": 4, "ts0": [5, 8], "ts1": [6, 8], "existing": False}]
    return out


MODELS = ["syminterp", "symdict", "symnp:partitura.score,partitura.utils.generic,partitura.utils.music"]
HARNESSES = [
    H("estimate", make_estimate, lambda tier: [{"div": d} for d in (DIVS_Q if tier == "quick" else DIVS_T)],
      models=["symnp:partitura.utils.generic,partitura.utils.music"], budget={"quick": 200, "thorough": 900},
      functions=["music.estimate_symbolic_duration", "music.symbolic_to_numeric_duration", "generic.find_nearest",
                 "music.format_symbolic_duration"],
      bounds="divisions from the listed sets, numeric duration in [0, 8*div] on the grid k*max(1,div//32)+{-1,0,1} (enumerated by the solver: the tuplet search divides by the duration)",
      outside="divisions not in the list; IEEE rounding of dur/div (table values are binary fractions)"),
    H("tie_split", make_tie_split, lambda tier: [{"div": d} for d in ((2, 4) if tier == "quick" else (1, 2, 3, 4, 6, 8, 12, 16))],
      models=["symnp:partitura.utils.generic,partitura.utils.music"], budget={"quick": 200, "thorough": 900},
      functions=["music.find_tie_split", "music.order_splits", "music.find_smallest_unit", "generic.search",
                 "generic.iter_current_next"],
      bounds="start in [0,2*div], length in [1,4*div] (enumerated: order_splits calls np.arange on them)"),
    H("add_measures", make_add_measures, _am_inst, models=MODELS, budget={"quick": 200, "thorough": 900},
      functions=["score.add_measures", "Part.beat_map", "Part.inv_beat_map", "Part.iter_all", "Part.add"],
      bounds="timeline [0,end] with symbolic end <= 3-5 bars, optional second time signature at a symbolic time, "
             "optional existing measure at a symbolic position (also across the change); listed meters/divisions",
      outside="fill_rests / find_tuplets / sanitize_part (not encoded); more than two signatures"),
    H("tie_notes", make_tie_notes, _tn_inst, models=[], budget={"quick": 300, "thorough": 1200}, reals_only=False,
      functions=["score.tie_notes", "score.split_note", "music.estimate_symbolic_duration", "music.find_tie_split",
                 "Part.add", "Part.remove", "Part.note_array"],
      bounds="3-4 explicit measures, divisions q0 in the first bar and q1 afterwards (change at the barline), one note with "
             "symbolic onset in the first two bars and symbolic duration up to the end of the part (realised: the solver "
             "enumerates the grid), a fixed note in a second voice, optional slur ending on the note",
      outside="divisions changing inside a measure, chords, grace notes, several notes needing ties at once"),
]
