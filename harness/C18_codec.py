"""C18 (partial) — the matched-note table and the time maps derived from an alignment.

Only the second sentence of the property is claimed: `to_matched_score` / `get_matched_notes` pair exactly
the alignment's matches whose ids exist in both score and performance, ordered by score onset then pitch, and
`get_time_maps_from_alignment` interpolates the matched onsets (chords by their mean) in both directions.
Engine A: the score note array is concrete per instance, the performance (onset, duration in ms, velocity) is
symbolic.  The encode / decode chain (float32, log2, 2**x, mean / std) is NOT covered.
"""
from engine.hdef import H
from engine.sym import check, must_not_raise, require

# (id, onset_beat, duration_beat, onset_div, duration_div, pitch, voice)
SCORES = {
    "chord": [("s1", 0.0, 1.0, 0, 4, 60, 1), ("s2", 1.0, 1.0, 4, 4, 64, 1), ("s3", 1.0, 1.0, 4, 4, 62, 1), ("s4", 2.0, 2.0, 8, 8, 59, 1)],
    "grace": [("s1", 0.0, 1.0, 0, 4, 60, 1), ("s2", 1.0, 0.0, 4, 0, 65, 1), ("s3", 1.0, 1.0, 4, 4, 67, 1), ("s4", 3.0, 1.0, 12, 4, 67, 1)],
}
# alignment shapes: (label, score_id, performance_id)
ALIGN = {
    "all": [("match", "s1", "n1"), ("match", "s2", "n2"), ("match", "s3", "n3"), ("match", "s4", "n4")],
    "rev": [("match", "s4", "n4"), ("match", "s3", "n3"), ("match", "s2", "n2"), ("match", "s1", "n1")],
    "mixed": [("match", "s1", "n1"), ("deletion", "s2", None), ("insertion", None, "n2"), ("match", "s3", "n3"), ("match", "s4", "n4")],
    "missing": [("match", "s1", "n1"), ("match", "sX", "n2"), ("match", "s3", "nX"), ("match", "s4", "n4"), ("ornament", "s2", "n3")],
}
S_DT = [("id", "U8"), ("onset_beat", "f4"), ("duration_beat", "f4"), ("onset_div", "i4"), ("duration_div", "i4"), ("pitch", "i4"), ("voice", "i4")]
P_DT = [("id", "U8"), ("onset_sec", "f4"), ("duration_sec", "f4"), ("pitch", "i4"), ("velocity", "i4")]


def _arrays(score, P):
    import numpy as np
    from engine import sym

    sna = np.array(SCORES[score], dtype=S_DT)
    rows = [("n%d" % (i + 1), on / 1000, du / 1000, 60 + i, vel) for i, (on, du, vel) in enumerate(P)]
    if sym._ACTIVE["symbolic"]:
        from envmodels.symnp import NP_OBJ

        pna = NP_OBJ.array(rows, dtype=P_DT)
    else:
        pna = np.array(rows, dtype=[(n, "f8" if t == "f4" else t) for n, t in P_DT])  # exact ms -> s, no float32 step
    return sna, pna


def _alignment(shape):
    out = []
    for (label, sid, pid) in ALIGN[shape]:
        d = dict(label=label)
        if sid:
            d["score_id"] = sid
        if pid:
            d["performance_id"] = pid
        out.append(d)
    return out


def make_matched(score, shape):
    def h(on1: int, du1: int, on2: int, du2: int, on3: int, du3: int, on4: int, du4: int, v1: int, v2: int):
        from partitura.musicanalysis import performance_codec as PC

        ons, dus = [on1, on2, on3, on4], [du1, du2, du3, du4]
        for x in ons:
            require(0 <= x <= 10 ** 6)
        for d in dus:
            require(0 <= d <= 10 ** 5)
        require(1 <= v1 <= 127)
        require(1 <= v2 <= 127)
        P = list(zip(ons, dus, [v1, v2, 64, 100]))
        sna, pna = _arrays(score, P)
        al = _alignment(shape)
        sids = [r[0] for r in SCORES[score]]
        pids = ["n1", "n2", "n3", "n4"]
        exp_pairs = [(a["score_id"], a["performance_id"]) for a in al
                     if a["label"] == "match" and a["score_id"] in sids and a["performance_id"] in pids]
        # ---- index table
        idx = must_not_raise(PC.get_matched_notes, sna, pna, al, _what="get_matched_notes")
        got_pairs = [(sids[int(i)], pids[int(j)]) for (i, j) in idx.tolist()] if len(idx) else []
        check(got_pairs == exp_pairs, "get_matched_notes does not pair exactly the matches present on both sides", got_pairs, exp_pairs)
        # ---- matched score
        ms, snote_ids = must_not_raise(PC.to_matched_score, sna, pna, al, include_score_markings=False, _what="to_matched_score")
        srow = {r[0]: r for r in SCORES[score]}
        order = sorted(exp_pairs, key=lambda sp: (srow[sp[0]][3], srow[sp[0]][5]))  # score onset, then pitch
        check(list(snote_ids) == [s for (s, p) in order], "matched notes are not ordered by score onset then pitch", list(snote_ids),
              [s for (s, p) in order])
        check(len(ms) == len(order), "number of rows of the matched-note table", len(ms), len(order))
        for row, (sid, pid) in zip(ms.tolist() if hasattr(ms, "tolist") else list(ms), order):
            k = pids.index(pid)
            on, du, vel = P[k]
            s = srow[sid]
            check(abs(row[0] - s[1]) < 1e-6 and abs(row[1] - s[2]) < 1e-6 and row[2] == s[5], "score columns of the pair", sid, row)
            d = row[3] * 1000 - on
            d = d if d >= 0 else -d
            check(d <= 1e-3 * (1 + on / 1000), "performed onset of the pair", pid, row[3], on)
            check(row[5] == vel, "velocity of the pair", pid, row[5], vel)
            # durations shorter than 75 ms are raised to 75 ms by the table (documented "hack for notes with negative durations")
            expd = du if du >= 75 else 75
            d = row[4] * 1000 - expd
            d = d if d >= 0 else -d
            check(d <= 1e-3 * (1 + expd / 1000), "performed duration of the pair", pid, row[4], expd)
        return [list(p) for p in got_pairs]

    return h


def make_time_maps(score, shape):
    def h(on1: int, on2: int, on3: int, on4: int):
        from partitura.musicanalysis import performance_codec as PC

        ons = [on1, on2, on3, on4]
        for x in ons:
            require(0 <= x <= 10 ** 6)
        P = [(o, 100, 64) for o in ons]
        sna, pna = _arrays(score, P)
        al = _alignment(shape)
        sids = [r[0] for r in SCORES[score]]
        pids = ["n1", "n2", "n3", "n4"]
        srow = {r[0]: r for r in SCORES[score]}
        pairs = [(a["score_id"], a["performance_id"]) for a in al
                 if a["label"] == "match" and a["score_id"] in sids and a["performance_id"] in pids]
        # knots: unique score onsets of matched notes with a duration; performed time = mean of the chord's performed onsets
        groups = {}
        for (sid, pid) in pairs:
            if srow[sid][2] > 0:
                groups.setdefault(srow[sid][1], []).append(ons[pids.index(pid)])
        knots = sorted(groups.items())
        require(len(knots) >= 2)
        means2 = [(sum(g), len(g)) for (_, g) in knots]  # (sum, count): mean = sum / count, compared without dividing
        for (a, b) in zip(means2[:-1], means2[1:]):
            require(a[0] * b[1] < b[0] * a[1])  # performed chord means strictly increase with score time
        p2s, s2p = must_not_raise(PC.get_time_maps_from_alignment, pna, sna, al, _what="get_time_maps_from_alignment")
        for (sb, g), (sm, cnt) in zip(knots, means2):
            mean_sec = sm / cnt / 1000
            got_s = float_(p2s(mean_sec))
            d = got_s - sb
            d = d if d >= 0 else -d
            check(d <= 1e-6, "performance->score map does not pass through a matched onset", sb, got_s)
            got_p = float_(s2p(sb))
            d = got_p - mean_sec
            d = d if d >= 0 else -d
            check(d <= 1e-6 * (1 + mean_sec), "score->performance map does not pass through the mean performed onset", sb, got_p, mean_sec)
        return [[float(k), float(sm / cnt)] for (k, _), (sm, cnt) in zip(knots, means2)]

    return h


def float_(v):
    """0-d arrays / numpy scalars -> the value itself (kept symbolic under the engine)."""
    try:
        return v.item() if hasattr(v, "item") and getattr(v, "ndim", 0) == 0 else v
    except Exception:
        return v


def _inst_m(tier):
    out = [{"score": "chord", "shape": "all"}, {"score": "chord", "shape": "missing"}, {"score": "grace", "shape": "mixed"}]
    if tier != "quick":
        out += [{"score": "chord", "shape": "rev"}, {"score": "chord", "shape": "mixed"}, {"score": "grace", "shape": "all"},
                {"score": "grace", "shape": "missing"}, {"score": "grace", "shape": "rev"}]
    return out


def _inst_t(tier):
    out = [{"score": "chord", "shape": "all"}, {"score": "grace", "shape": "mixed"}, {"score": "grace", "shape": "all"}]
    if tier != "quick":
        out += [{"score": "chord", "shape": "rev"}, {"score": "chord", "shape": "mixed"}, {"score": "chord", "shape": "missing"}]
    return out


MODELS = ["syminterp", "symdict", "quiet_generic", "symnp:partitura.utils.generic,partitura.utils.music,partitura.musicanalysis.performance_codec"]
VEC_M = [{"on1": 100, "du1": 500, "on2": 1200, "du2": 400, "on3": 1000, "du3": 10, "on4": 2500, "du4": 0, "v1": 70, "v2": 80}]
VEC_T = [{"on1": 100, "on2": 1200, "on3": 1000, "on4": 2500}, {"on1": 0, "on2": 1, "on3": 3, "on4": 1000000}]
HARNESSES = [
    H("matched", make_matched, _inst_m, models=MODELS, budget={"quick": 200, "thorough": 900}, vectors=VEC_M,
      functions=["performance_codec.to_matched_score", "performance_codec.get_matched_notes", "music.ensure_notearray"],
      bounds="a concrete four-note score array (chord or grace note) and alignment shape per instance (matches in any order, deletion, "
             "insertion, ornament, ids missing on either side); four performed notes with symbolic onset / duration (ms) and two "
             "symbolic velocities; score given as a note array (no note features)",
      outside="the float32 storage of the table (tolerance 1e-3 ms relative), score markings / note features, larger scores"),
    H("time_maps", make_time_maps, _inst_t, models=MODELS, budget={"quick": 200, "thorough": 900}, vectors=VEC_T,
      functions=["performance_codec.get_time_maps_from_alignment", "performance_codec.get_matched_notes", "generic.interp1d"],
      bounds="same scores and alignment shapes; four symbolic performed onsets (ms) whose chord means increase with score time; "
             "both maps are queried at their knots (matched score onsets / mean performed onsets)",
      outside="values between knots (division by symbolic knot distances), monotonisation of crossing onsets, float rounding"),
]
