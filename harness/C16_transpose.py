"""C16 — transposition moves every note by the interval and leaves the input alone.

Engine A.  `_transpose_note_inplace`, `_transpose_step`, `transpose_note`
and `transpose` are executed with symbolic step index / alteration / octave /
interval quality; the interval number and direction are concrete per
instance.  Oracle: diatonic arithmetic written from the statement (staff steps
move by number-1, MIDI pitch by +-semitones, octave follows the step).
"""
from engine.hdef import H
from engine.sym import check, must_not_raise, require

STEP_NAMES = "CDEFGAB"
NAT = [0, 2, 4, 5, 7, 9, 11]


def quals(number):
    return ["dd", "d", "P", "A", "AA"] if number in (1, 4, 5) else ["dd", "d", "m", "M", "A", "AA"]


def semis(number, q):
    base = NAT[number - 1]
    if number in (1, 4, 5):
        return base + {"dd": -2, "d": -1, "P": 0, "A": 1, "AA": 2}[q]
    return base + {"dd": -3, "d": -2, "m": -1, "M": 0, "A": 1, "AA": 2}[q]


def oracle(step_i, alter, octave, number, q, down):
    """(step index, alter, octave, midi) after moving by the interval."""
    sgn = -1 if down else 1
    s2 = step_i + sgn * (number - 1)
    nstep = s2 % 7
    noct = octave + s2 // 7
    midi = 12 * (octave + 1) + NAT[step_i] + alter + sgn * semis(number, q)
    nalt = midi - (12 * (noct + 1) + NAT[nstep])
    return nstep, nalt, noct, midi


def make_note(number, down):
    Q = quals(number)

    def h(step_i: int, alter: int, octave: int, q_i: int, via_change: bool):
        import partitura.score as S
        from partitura.utils import music as M

        require(0 <= step_i < 7)
        require(-2 <= alter <= 2)
        require(0 <= octave <= 8)
        require(0 <= q_i < len(Q))
        q = Q[q_i]
        if via_change and q_i > 0:
            # the same interval reached by altering a neighbouring quality (as the Roman-numeral code does)
            iv = S.Interval(number, Q[q_i - 1], "down" if down else "up").change_quality(1)
        elif via_change:
            iv = S.Interval(number, Q[1], "down" if down else "up").change_quality(-1)
        else:
            iv = S.Interval(number, q, "down" if down else "up")
        check(iv.quality == q and iv.semitones == semis(number, q), "Interval after change_quality", iv.quality, iv.semitones)
        nstep, nalt, noct, midi = oracle(step_i, alter, octave, number, q, down)
        require(-2 <= nalt <= 2)  # results that need more than a double accidental are outside the claim
        note = S.Note(STEP_NAMES[step_i], octave, alter)
        must_not_raise(M._transpose_note_inplace, note, iv, _what="_transpose_note_inplace")
        check(note.step == STEP_NAMES[nstep], "wrong staff step", STEP_NAMES[step_i], alter, octave, q, note.step)
        check(note.octave == noct, "octave does not follow the step", note.octave, noct)
        check((note.alter or 0) == nalt, "wrong alteration", note.alter, nalt)
        check(note.midi_pitch == midi, "MIDI pitch did not move by the interval's semitones", note.midi_pitch, midi)
        # there and back again
        back = S.Interval(number, q, "up" if down else "down")
        must_not_raise(M._transpose_note_inplace, note, back, _what="_transpose_note_inplace (inverse)")
        check(note.step == STEP_NAMES[step_i] and (note.alter or 0) == alter and note.octave == octave,
              "up then down does not restore the spelling", note.step, note.alter, note.octave)
        if not down:
            ns, na = must_not_raise(M.transpose_note, STEP_NAMES[step_i], alter, iv, _what="transpose_note",
                                    _allowed=())
            check(ns == STEP_NAMES[nstep] and na == nalt, "transpose_note disagrees with diatonic arithmetic", ns, na)
        return [note.step, note.alter, note.octave]

    return h


def fingerprint(part):
    out = []
    for p in part._points:
        for cls, oo in sorted(p.starting_objects.items(), key=lambda e: e[0].__name__):
            for o in oo:
                out.append((p.t, cls.__name__, getattr(o, "id", None), getattr(o, "step", None),
                            getattr(o, "alter", None), getattr(o, "octave", None), getattr(o, "voice", None),
                            getattr(o, "staff", None), o.end.t if o.end is not None else None,
                            getattr(getattr(o, "tie_next", None), "id", None),
                            getattr(getattr(o, "tie_prev", None), "id", None)))
    return out


def make_part(number, q, down, as_score):
    s0_dummy = 0
    def h(s0: int, a0: int, o0: int):
        import partitura.score as S
        from partitura.utils import music as M

        s1, a1, o1 = (4, 0, 4) if (number + s0_dummy) % 2 else (3, 1, 3)  # second pitch concrete (G4 / F#3)

        for s, a, o in ((s0, a0, o0), (s1, a1, o1)):
            require(0 <= s < 7)
            require(-1 <= a <= 1)
            require(1 <= o <= 7)
        for s, a, o in ((s0, a0, o0), (s1, a1, o1)):
            require(-2 <= oracle(s, a, o, number, q, down)[1] <= 2)
        part = S.Part("P", quarter_duration=4)
        part.add(S.TimeSignature(4, 4), 0)
        part.add(S.Measure(number=1), 0, 16)
        n0 = S.Note(STEP_NAMES[s0], o0, a0, id="n0", voice=1, staff=1)
        n0b = S.Note(STEP_NAMES[s0], o0, a0, id="n0b", voice=1, staff=1)
        n0.tie_next = n0b
        n0b.tie_prev = n0
        g = S.GraceNote("grace", STEP_NAMES[s1], o1, a1, id="g", voice=1, staff=1)
        n1 = S.Note(STEP_NAMES[s1], o1, a1, id="n1", voice=2, staff=1)
        r = S.Rest(id="r", voice=2, staff=1)
        part.add(n0, 0, 4)
        part.add(n0b, 4, 8)
        part.add(g, 8, 8)
        part.add(n1, 8, 12)
        part.add(r, 12, 16)
        arg = S.Score([part]) if as_score else part
        before = fingerprint(part)
        iv = S.Interval(number, q, "down" if down else "up")
        res = must_not_raise(M.transpose, arg, iv, _what="transpose")
        check(res is not arg, "transpose returned its argument")
        check(fingerprint(part) == before, "transpose modified its argument", before, fingerprint(part))
        rp = res.parts[0] if as_score else res
        check(rp is not part, "result shares the part with the argument")
        notes = {n.id: n for n in rp.iter_all(S.Note, include_subclasses=True)}
        check(sorted(notes) == ["g", "n0", "n0b", "n1"], "notes lost or added", sorted(notes))
        for nid, (s, a, o) in (("n0", (s0, a0, o0)), ("n0b", (s0, a0, o0)), ("g", (s1, a1, o1)), ("n1", (s1, a1, o1))):
            ns, na, no, midi = oracle(s, a, o, number, q, down)
            n = notes[nid]
            check(n.step == STEP_NAMES[ns] and (n.alter or 0) == na and n.octave == no,
                  "note of the result not transposed by the interval", nid, n.step, n.alter, n.octave)
        # everything else equal
        fa = [(e[0], e[1], e[2], e[6], e[7], e[8], e[9], e[10]) for e in before]
        fb = [(e[0], e[1], e[2], e[6], e[7], e[8], e[9], e[10]) for e in fingerprint(rp)]
        check(fa == fb, "onsets/durations/voices/ties/other elements changed", fa, fb)
        return [[n.step, n.alter, n.octave] for n in (notes["n0"], notes["n0b"], notes["g"], notes["n1"])]

    return h


def _note_inst(tier):
    return [{"number": n, "down": d} for n in range(1, 8) for d in (False, True)]


def _part_inst(tier):
    base = [(3, "m", False, False), (3, "M", True, False), (5, "P", True, True), (2, "A", False, True)]
    if tier != "quick":
        base += [(7, "m", True, False), (4, "A", False, False), (6, "M", True, True), (1, "A", False, True),
                 (2, "d", True, False)]
    return [{"number": n, "q": q, "down": d, "as_score": s} for n, q, d, s in base]


HARNESSES = [
    H("note", make_note, _note_inst, budget={"quick": 90, "thorough": 400},
      functions=["_transpose_note_inplace", "_transpose_step", "transpose_note", "step2pc", "Interval.__init__",
                 "Interval.semitones", "Note.midi_pitch"],
      bounds="all 7 steps x alter -2..2 x octave 0..8 x all 39 interval classes x both directions, restricted to "
             "results needing at most a double accidental",
      outside="intervals larger than a seventh; results that need triple accidentals"),
    H("part", make_part, _part_inst, budget={"quick": 120, "thorough": 400},
      functions=["transpose", "_transpose_note_inplace", "copy.deepcopy of Part/Score"],
      bounds="one part (also wrapped in a Score) with a two-note tie chain, a grace note, a note in a second voice "
             "and a rest; symbolic step/alter(-1..1)/octave(1..7) for the tie chain, concrete second pitch; listed intervals",
      outside="other part shapes"),
]
