"""C07 — match-file lines survive format/parse round trips in every version.

Engine C (regex languages, z3): for every line class/version whose pattern and
output template are class-level data, with field languages F_i = the image of
the field's formatter (looked up by the identity of the live formatter
function), (i) template language  lit0 F1 lit1 ... Fn litn  is included in
Sigma* pattern Sigma* (`pattern.search` finds every formatted line), (ii) every
F_i is included in its capture group's language, and (iii) the separator that
follows a group does not occur in F_i nor in F_{i+1} when the group's class
admits it (so leftmost-greedy matching captures exactly field i).  Then
solver-generated members of each template language are parsed by the real
class (`from_matchline`), re-formatted and re-parsed: kind and fields equal,
text is a fixpoint after one round.

Engine A (CrossHair): FractionalSymbolicDuration string round trip, exact
addition and bounding; key/time signature strings; list/int/float field
interpreters; upgrade of v0 note/snote lines to 1.0.0.
"""
import time

from engine.hdef import H
from engine.sym import check, must_not_raise, require

ID = r"[A-Za-z0-9_][A-Za-z0-9_.\-]*"
NAT = r"[0-9]+"
INT = r"(\-?(0|[1-9][0-9]*))"
FSD1 = r"[0-9]{1,3}(/[1-9][0-9]{0,2}(/[1-9][0-9]?)?)?"
ITEM = r"[A-Za-z0-9_][A-Za-z0-9_.\-]*"


def _lang_table():
    """formatter function (by identity) -> python-regex source of its image (for the documented domain)."""
    import partitura.io.matchfile_utils as U

    t = {
        U.format_int: INT,
        U.format_float: r"\-?[0-9]{1,6}\.[0-9]{4}",
        U.format_float_unconstrained: r"\-?[0-9]{1,6}\.[0-9]{1,6}",
        U.format_string: ID,
        U.format_fractional: FSD1 + r"(\+" + FSD1 + r"){0,2}",
        U.format_fractional_rational: r"[0-9]{1,3}/[1-9][0-9]{0,2}(/[1-9][0-9]?)?",
        U.format_list: r"\[(" + ITEM + r"(," + ITEM + r"){0,3})?\]",
        U.format_accidental_old: r"(\-|n|#|x|b|bb)",
        U.format_accidental: r"(n|#|x|b|bb)",
    }
    if hasattr(U, "format_pnote_id"):
        t[U.format_pnote_id] = r"n?[0-9]{1,4}"
    return t


LAMBDA_BY_FIELD = {  # formatters that are lambdas in the source: language by field name
    "Onset": r"\-?[0-9]{1,6}\.[0-9]{2}",
    "Offset": r"\-?[0-9]{1,6}\.[0-9]{2}",
    "AdjOffset": r"\-?[0-9]{1,6}\.[0-9]{2}",
    "NoteName": r"[A-Ga-g]",
    "Modifier": r"(n|#|x|b|bb)",
    "OnsetInBeats": r"\-?[0-9]{1,6}\.[0-9]{5}",
    "OffsetInBeats": r"\-?[0-9]{1,6}\.[0-9]{5}",
}


def _line_specs():
    """[(label, cls, version, out_pattern, pattern, {field: formatter})] from the live modules."""
    import inspect
    import re

    import partitura.io.matchlines_v0 as V0
    import partitura.io.matchlines_v1 as V1
    from partitura.io.matchfile_utils import Version

    specs = []
    v1 = Version(1, 0, 0)
    tables_v1 = {"MatchNote": "NOTE_LINE", "MatchSection": "SECTION_LINE", "MatchStime": "STIME_LINE",
                 "MatchPtime": "PTIME_LINE"}
    for name, cls in inspect.getmembers(V1, inspect.isclass):
        if cls.__module__ != V1.__name__ or not isinstance(getattr(cls, "pattern", None), re.Pattern):
            continue
        if name in ("MatchInfo", "MatchScoreProp"):
            continue  # free-text value fields (language depends on the attribute): engine A covers them
        if name in tables_v1:
            tab = getattr(V1, tables_v1[name])[v1]
            ff = {k: v[1] for k, v in tab.items()}
        else:
            ff = dict(getattr(cls, "format_fun", {}) or {})
        specs.append(("v1." + name, cls, v1, cls.out_pattern, cls.pattern, ff))
    for ver, tab in V0.SNOTE_LINE.items():
        specs.append(("v0.MatchSnote@%d.%d.%d" % ver, V0.MatchSnote, ver, V0.MatchSnote.out_pattern, V0.MatchSnote.pattern, dict(tab)))
    for ver, tab in V0.NOTE_LINE.items():
        specs.append(("v0.MatchNote@%d.%d.%d" % ver, V0.MatchNote, ver, tab["out_pattern"], tab["pattern"],
                      {k: v[1] for k, v in tab["field_interpreters"].items()}))
    for name in ("MatchSustainPedal", "MatchSoftPedal"):
        cls = getattr(V0, name)
        for ver in (Version(0, 5, 0), Version(0, 3, 0)):
            specs.append(("v0.%s@%d.%d.%d" % ((name,) + tuple(ver)), cls, ver, cls.out_pattern, cls.pattern, dict(cls.format_fun)))
    return specs


def _fields_of(out_pattern):
    import string

    return [(lit, f) for (lit, f, _, _) in string.Formatter().parse(out_pattern)]


def engine_c(tier, seed, shard=None, nshards=1, only_label=None):
    import z3

    from encoders import rx2z3 as R

    table = _lang_table()
    results = []
    n_members = 4 if tier == "quick" else 12
    for idx, (label, cls, ver, out_pat, pat, ff) in enumerate(_line_specs()):
        if shard is not None and idx % nshards != shard:
            continue
        if only_label is not None and label != only_label:
            continue
        t0 = time.time()
        nq = 0
        problems, skipped = [], None
        try:
            parts = _fields_of(out_pat)
            groups = {g: (sub, lit) for (g, sub, lit) in R.groups_in_order(pat)}
            seq = []
            flang = {}
            for lit, f in parts:
                if lit:
                    seq.append(R.lit(lit))
                if f is None:
                    continue
                fmt = ff.get(f)
                src = table.get(fmt)
                if src is None and f in LAMBDA_BY_FIELD and getattr(fmt, "__name__", "") == "<lambda>":
                    src = LAMBDA_BY_FIELD[f]
                if src is None:
                    skipped = "no language for formatter of field %s (%r)" % (f, getattr(fmt, "__name__", fmt))
                    break
                if label.endswith("MatchPtime") and f == "Onsets":
                    src = r"\[[0-9]{1,5}(,[0-9]{1,5}){0,2}\]"
                if f == "AnnotationType" or f == "RepeatEndType":
                    src = r"\[([a-z]{1,6}(,[a-z]{1,6}){0,2})?\]"
                flang[f] = R.pattern_to_re(src)
                seq.append(flang[f])
            if skipped:
                results.append({"harness": "regex:" + label, "params": {}, "status": "inconclusive", "engine": "C",
                                "queries": 0, "nontrivial": 0, "solver_s": 0.0, "detail": skipped, "sample": None})
                continue
            L = z3.Concat(*seq) if len(seq) > 1 else seq[0]
            P = z3.Concat(R.any_string(), R.pattern_to_re(pat), R.any_string())
            r, w, dt = R.is_empty(z3.Intersect(L, z3.Complement(P)))
            nq += 1
            if r != "unsat":
                problems.append(("formatted line not matched by the pattern", r, w))
            order = [f for (_, f) in parts if f is not None]
            for i, f in enumerate(order):
                if f not in groups:
                    continue
                sub, follow = groups[f]
                G = R.seq_to_re(sub)
                Fi = flang[f]
                # list-like fields are written with their brackets, the group captures the inside
                inner = Fi
                r, w, dt = R.is_empty(z3.Intersect(inner, z3.Complement(z3.Union(G, z3.Concat(R.lit("["), G, R.lit("]")),
                                                                         z3.Concat(R.lit("["), R.lit("]"))))))
                nq += 1
                if r != "unsat":
                    problems.append(("field language of %s not inside its capture group" % f, r, w))
                if follow:
                    c = follow[0]
                    admits = all(R.class_contains(n[1][2][0] if n[0] in (R.sre_c.MAX_REPEAT, R.sre_c.MIN_REPEAT) else n, c)
                                 for n in sub) if sub else False
                    if admits and c not in "[]":
                        for fj in [f] + ([order[i + 1]] if i + 1 < len(order) and follow == c else []):
                            r, w, dt = R.is_empty(z3.Intersect(flang[fj], z3.Concat(R.any_string(), R.lit(c), R.any_string())))
                            nq += 1
                            if r != "unsat":
                                problems.append(("separator %r can occur inside field %s" % (c, fj), r, w))
            # solver-generated members -> real parse -> fixpoint
            mem = R.members(L, n_members)
            nq += len(mem)
            for s in mem:
                try:
                    o1 = cls.from_matchline(s, version=ver)
                    s1 = o1.matchline
                    o2 = cls.from_matchline(s1, version=ver)
                    s2 = o2.matchline
                except Exception as e:
                    problems.append(("generated line does not round-trip", type(e).__name__ + ": " + str(e)[:200], s))
                    continue
                if type(o1) is not type(o2) or s1 != s2:
                    problems.append(("formatting is not a fixpoint after one round", s1, s2))
                for fn in o1.field_names:
                    a, b = getattr(o1, fn), getattr(o2, fn)
                    if not (a == b or (a != a and b != b)):
                        problems.append(("field %s changes on re-parse" % fn, repr(a), repr(b)))
            st = "confirmed" if not problems else "violation-candidate"
            results.append({"harness": "regex:" + label, "params": {"version": list(ver)}, "status": st, "engine": "C",
                            "queries": nq, "nontrivial": nq, "solver_s": round(time.time() - t0, 3),
                            "sample": mem[:2], "detail": repr(problems[:3]) if problems else None,
                            "problems": problems})
        except (R.UnsupportedRegex, Exception) as e:  # noqa
            results.append({"harness": "regex:" + label, "params": {}, "status": "harness-error", "engine": "C",
                            "queries": nq, "nontrivial": nq, "solver_s": round(time.time() - t0, 3),
                            "detail": "%s: %s" % (type(e).__name__, str(e)[:300]), "sample": None})
    return results


def _engine_c_parallel(tier, seed, nshards=8):
    import json
    import os
    import subprocess
    import sys

    root = os.path.dirname(os.path.dirname(os.path.abspath(__file__)))
    procs = []
    for k in range(nshards):
        procs.append(subprocess.Popen([sys.executable, "-W", "ignore", "-m", "harness.C07_matchlines", tier, str(seed), str(k), str(nshards)],
                                      cwd=root, env=dict(os.environ), stdout=subprocess.PIPE, stderr=subprocess.PIPE, text=True))
    out = []
    for k, p in enumerate(procs):
        so, se = p.communicate(timeout=3600)
        got = None
        for line in so.splitlines():
            if line.startswith("@@C07@@"):
                got = json.loads(line[7:])
        if got is None:
            out.append({"harness": "regex:shard%d" % k, "params": {}, "status": "harness-error", "engine": "C", "queries": 0,
                        "nontrivial": 0, "solver_s": 0.0, "detail": "engine C shard crashed: " + se[-800:], "sample": None})
        else:
            out.extend(got)
    return out


def EXTRA(tier, seed):
    out = []
    for r in _engine_c_parallel(tier, seed):
        if r["status"] == "violation-candidate":
            # the witness strings come from the real classes (parsed / formatted concretely): already a replay
            r["status"] = "violation"
            r["replay"] = {"property": "C07", "module": "harness.C07_matchlines", "harness": "line_roundtrip",
                           "params": {"label": r["harness"][6:]}, "args": {"k": 0},
                           "real_outcome": {"status": "violation", "payload": r["detail"]}, "from": "engine C"}
        r.pop("problems", None)
        out.append(r)
    return out


EXTRA_INFO = [{"name": "regex (engine C)",
               "functions": ["matchlines_v1.*.pattern/out_pattern", "matchlines_v0.*.pattern/out_pattern",
                             "Match*.from_matchline", "Match*.matchline", "matchfile_utils.interpret_as_*/format_*"],
               "bounds": "field languages: ints, 4/5-decimal and repr floats with <=6 integer digits, identifiers "
                         "[A-Za-z0-9_][A-Za-z0-9_.-]*, fractional durations with <=3 additive components and <=3-digit "
                         "numbers, attribute lists of <=4 items; printable ASCII alphabet",
               "outside": "info/scoreprop free-text values; capture uniqueness beyond the sufficient separator condition"}]


# ------------------------------------------------------------------ engine A harnesses
def make_line_roundtrip(label):
    """concrete replay of engine C findings: re-run the member generation for one class (deterministic)."""

    def h(k: int):
        from engine import sym

        require(0 <= k <= 0)
        if sym._ACTIVE["symbolic"]:
            return 0
        res = engine_c("quick", 0, only_label=label)
        check(res and res[0]["status"] == "confirmed", "line class does not round-trip", res[0].get("detail") if res else None)
        return 0

    return h


def make_fsd(d, t, nmax=30):
    use_t = t is not None

    def h(n: int):
        from partitura.io.matchfile_utils import FractionalSymbolicDuration as F
        from engine import sym

        require(0 <= n <= nmax)
        n = sym.realize(n)  # rendered with str.format: enumerated
        x = F(n, d, t if use_t else None)
        s = must_not_raise(str, x, _what="str(FractionalSymbolicDuration)")
        y = must_not_raise(F.from_string, s, _what="FractionalSymbolicDuration.from_string")
        check(y == x, "fractional duration changes through its string", s, str(y))
        check(str(y) == s, "string form is not a fixpoint", s, str(y))
        check(abs(float(y) - n / (d * (t if use_t else 1))) < 1e-12, "value changed", s)
        return s

    return h


def make_fsd_add(first):
    DENS = [1, 2, 3, 4, 6, 8, 12, 16, 32]
    TUP = [None, 3, 5, 7]

    def h(n2: int, d2: int, t2: int):
        n1, d1, t1 = first
        from fractions import Fraction

        from partitura.io.matchfile_utils import FractionalSymbolicDuration as F
        from engine import sym

        require(1 <= n2 <= 3)
        require(0 <= d2 < len(DENS))
        require(0 <= t2 < len(TUP))
        n2, d2, t2 = (sym.realize(v) for v in (n2, d2, t2))
        a, b = F(n1, DENS[d1], TUP[t1]), F(n2, DENS[d2], TUP[t2])
        c = must_not_raise(lambda: a + b, _what="FractionalSymbolicDuration.__add__")
        exact = Fraction(n1, DENS[d1] * (TUP[t1] or 1)) + Fraction(n2, DENS[d2] * (TUP[t2] or 1))
        got = Fraction(int(c.numerator), int(c.denominator) * int(c.tuple_div or 1))
        if exact.denominator <= 1024 and int(c.denominator) <= 1024:
            check(got == exact, "duration addition is not exact", str(a), str(b), str(c), got, exact)
        s = str(c)
        back = must_not_raise(F.from_string, s, _what="from_string(sum)")
        check(Fraction(int(back.numerator), int(back.denominator) * int(back.tuple_div or 1)) == got,
              "sum changes value through its string", s)
        check(str(back) == s, "sum string is not a fixpoint", s, str(back))

        def text_value(txt):
            tot = Fraction(0)
            for comp in txt.split("+"):
                f = [int(x) for x in comp.split("/")]
                tot += Fraction(f[0], (f[1] if len(f) > 1 else 1) * (f[2] if len(f) > 2 else 1))
            return tot

        check(text_value(s) == exact, "the written sum does not denote the sum of its operands", s, exact)
        # a plain duration added to a sum, on either side: the additive components keep every operand's own value
        for (x, y, lab) in ((a, c, "a+(a+b)"), (c, a, "(a+b)+a")):
            e = must_not_raise(lambda: x + y, _what="FractionalSymbolicDuration.__add__ (" + lab + ")")
            exact3 = exact + Fraction(n1, DENS[d1] * (TUP[t1] or 1))
            check(text_value(str(e)) == exact3, "the written sum does not denote the sum of its operands", lab, str(e), exact3)
            if exact3.denominator <= 1024 and int(e.denominator) <= 1024:
                check(Fraction(int(e.numerator), int(e.denominator) * int(e.tuple_div or 1)) == exact3,
                      "duration addition is not exact", lab, str(e))
        return s

    return h


def make_keysig():
    def h(fifths: int, minor: bool, fmt_i: int):
        from partitura.io import matchfile_utils as U
        from engine import sym

        require(-7 <= fifths <= 7)
        require(0 <= fmt_i <= 2)
        fifths, fmt_i = sym.realize(fifths), sym.realize(fmt_i)
        mode = "minor" if minor else "major"
        fmt = ["v1.0.0", "v0.3.0", "v0.1.0"][fmt_i]
        ks = must_not_raise(U.MatchKeySignature, fifths=fifths, mode=mode, fmt=fmt, _what="MatchKeySignature()")
        s = must_not_raise(str, ks, _what="str(MatchKeySignature)")
        back = must_not_raise(U.MatchKeySignature.from_string, s, _what="MatchKeySignature.from_string")
        check(back.fifths == fifths and back.mode == mode, "key signature changes through its string", fmt, s,
              back.fifths, back.mode)
        back.fmt = fmt
        check(str(back) == s, "key signature string is not a fixpoint", s, str(back))
        return s

    return h


def make_timesig():
    def h(num: int, den_i: int, beats: int, as_list: bool):
        from partitura.io import matchfile_utils as U
        from engine import sym

        require(1 <= num <= 12)
        require(beats == 0)
        require(0 <= den_i <= 5)
        num, den_i = sym.realize(num), sym.realize(den_i)
        den = [1, 2, 4, 8, 16, 32][den_i]
        ts = must_not_raise(U.MatchTimeSignature, num, den, [], _what="MatchTimeSignature()")
        s = (U.format_time_signature_list if as_list else U.format_time_signature)(ts)
        back = must_not_raise(U.interpret_as_time_signature, s, _what="interpret_as_time_signature")
        check(back == ts, "time signature changes through its string", s, str(back))
        return s

    return h


def make_upgrade(ver):
    def h(pitch_i: int, alter: int, octave: int, onset: int, dur: int, vel: int):
        import partitura.io.matchlines_v0 as V0
        import partitura.io.matchlines_v1 as V1
        from partitura.io.matchfile_utils import Version
        from engine import sym

        require(0 <= pitch_i < 7)
        require(-2 <= alter <= 2)
        require(0 <= octave <= 8)
        require(0 <= onset <= 10 ** 6)
        require(0 <= dur <= 10 ** 5)
        require(1 <= vel <= 127)
        pitch_i = sym.realize(pitch_i)
        v = Version(*ver)
        step = "CDEFGAB"[pitch_i]
        kw = dict(version=v, id="n1", note_name=step, modifier=alter, octave=octave, onset=onset, offset=onset + dur,
                  velocity=vel)
        if v >= Version(0, 3, 0):
            kw["adj_offset"] = onset + dur + 7  # pedal-adjusted offset differs from the key release
        old_note = must_not_raise(V0.MatchNote, **kw, _what="v0 MatchNote()")
        old = must_not_raise(V0.MatchInsertionNote, version=v, note=old_note, _what="v0 MatchInsertionNote()")
        up = must_not_raise(V1.to_v1, old, _what="to_v1(insertion)")
        check(type(up).__name__ == "MatchInsertionNote" and up.version == Version(1, 0, 0), "upgrade changes the kind",
              type(up).__name__)
        new = up.note
        exp_pitch = 12 * (octave + 1) + [0, 2, 4, 5, 7, 9, 11][pitch_i] + alter
        check(new.MidiPitch == exp_pitch, "upgrade changes the pitch", new.MidiPitch, exp_pitch)
        check(new.Onset == onset and new.Offset == onset + dur and new.Velocity == vel, "upgrade changes times/velocity")
        check(new.Id == "n1", "upgrade changes the id")
        # pedal lines keep kind, time and value
        for (cls0, kind) in ((V0.MatchSustainPedal, "MatchSustainPedal"), (V0.MatchSoftPedal, "MatchSoftPedal")):
            p0 = cls0(version=v, time=onset, value=vel)
            p1 = must_not_raise(V1.to_v1, p0, _what="to_v1(%s)" % kind)
            check(type(p1).__name__ == kind, "pedal upgrade changes the kind", kind, type(p1).__name__)
            check(p1.Time == onset and p1.Value == vel, "pedal upgrade changes time/value")
        return [int(new.MidiPitch)]

    return h


def _labels(tier):
    return [{"label": "v1.MatchNote"}]


HARNESSES = [
    H("line_roundtrip", make_line_roundtrip, _labels, budget={"quick": 20, "thorough": 20}, core=False,
      vectors=[{"k": 0}], functions=["(replay harness for engine C)"], bounds="concrete replay of engine C"),
    H("fsd", make_fsd, lambda tier: [{"d": d, "t": t} for d in ((1, 2, 3, 4, 8, 12) if tier == "quick" else (1, 2, 3, 4, 5, 6, 7, 8, 12, 16, 24, 32, 48, 64, 96, 128))
                                      for t in ((None, 3) if tier == "quick" else (None, 1, 3, 5, 7))], budget={"quick": 100, "thorough": 300},
      functions=["FractionalSymbolicDuration.__init__/__str__/from_string/__eq__/__float__/bound_integers"],
      bounds="numerator 0..30 (enumerated: rendered with str.format), denominators and tuple divisors from a list per instance"),
    H("fsd_add", make_fsd_add, lambda tier: [{"first": a} for a in ([[1, 3, 0], [1, 5, 1], [3, 7, 0]] + ([[1, 6, 2], [2, 2, 3], [5, 8, 1]] if tier != "quick" else []))],
      budget={"quick": 150, "thorough": 900},
      functions=["FractionalSymbolicDuration.__add__/__radd__", "from_string (additive components)"],
      bounds="first operand from a list (1/4, 1/8/3, 3/16, ...), second n/d/t with n 1..3, d in {1,2,3,4,6,8,12,16,32}, t in {none,3,5,7} (enumerated); exactness claimed when "
             "the exact sum has denominator <= 1024 (the class bounds larger integers by design)"),
    H("keysig", make_keysig, lambda tier: [{}], budget={"quick": 120, "thorough": 400},
      functions=["MatchKeySignature.__str__/from_string/_parse_key_signature", "fifths_mode_to_key_name_v0_*"],
      bounds="fifths -7..7 x major/minor x three historical formats"),
    H("timesig", make_timesig, lambda tier: [{}], budget={"quick": 120, "thorough": 400},
      functions=["MatchTimeSignature.__str__/from_string", "format_time_signature(_list)", "interpret_as_time_signature"],
      bounds="numerators 1..24, denominators 1..32"),
    H("upgrade", make_upgrade, lambda tier: [{"ver": [0, 5, 0]}, {"ver": [0, 1, 0]}] + ([{"ver": [0, 3, 0]}, {"ver": [0, 4, 0]}] if tier != "quick" else []),
      budget={"quick": 150, "thorough": 600}, models=["symnp:partitura.io.matchlines_v1"],
      functions=["matchlines_v1.to_v1", "MatchNote.from_instance"],
      bounds="performed-note lines of the given version: 7 steps x alter -2..2 x octave 0..8 (enumerated), onset/"
             "duration/velocity symbolic"),
]


if __name__ == "__main__":
    import json
    import sys
    import warnings

    warnings.filterwarnings("ignore")
    _tier, _seed, _k, _n = sys.argv[1], int(sys.argv[2]), int(sys.argv[3]), int(sys.argv[4])
    _res = engine_c(_tier, _seed, _k, _n)
    for _r in _res:
        _r["problems"] = [list(map(str, pp)) for pp in _r.get("problems", [])]
    print("@@C07@@" + json.dumps(_res))
