"""C14 — performed notes sound until release or later, exactly as the pedal dictates.

Engine A on `adjust_offsets_w_sustain`, `PerformedPart.__init__`, the
`sustain_pedal_threshold` setter, `PerformedNote` validation,
`PerformedPart.note_array/from_note_array`, `Performance.sanitize_track_numbers`.
Times are symbolic reals, pitches/values/threshold symbolic ints.
"""
import inspect

from engine.hdef import H
from engine.sym import check, must_not_raise, require


def ref_sound_off(i, notes, pedal, thr):
    """Set of acceptable sounding ends of note i under the statement (ties between a release and a pedal
    event / re-strike at the very same instant are ambiguous in the statement: both readings accepted).
    Returns (lo_ok, exact_candidates or None)."""
    on, off, pitch = notes[i]
    ev = sorted(pedal, key=lambda e: e[0])
    if not ev or thr >= 127:
        return [off]

    def down_at(strict):
        st = False
        for (t, v) in ev:
            if (t < off) if strict else (t <= off):
                st = v > thr
        return st

    acc = []
    for strict in (True, False):
        if not down_at(strict):
            acc.append(off)
            continue
        for strict2 in (True, False):
            cands = [t for (t, v) in ev if v <= thr and ((t > off) if strict2 else (t >= off))]
            cands += [o for j, (o, f, p) in enumerate(notes)
                      if j != i and p == pitch and ((o > off) if strict2 else (o >= off))]
            if cands:
                acc.append(min(cands))
            else:
                acc.append(None)  # pedal never released, never re-struck: unspecified, anything >= off
    return acc


def make(n_notes, n_ctrl, two_thr=False, preset=False, one_pitch=False):
    names = []
    ann = {}
    for i in range(n_notes):
        for f, t in (("on", float), ("dur", float), ("p", int)):
            names.append("%s%d" % (f, i))
            ann[names[-1]] = t
    for j in range(n_ctrl):
        for f, t in (("ct", float), ("cv", int), ("cn", bool)):
            names.append("%s%d" % (f, j))
            ann[names[-1]] = t
    names.append("thr")
    ann["thr"] = int
    if preset:
        names.append("extra")
        ann["extra"] = float
    if two_thr:
        names.append("thr2")
        ann["thr2"] = int

    def h(**kw):
        from partitura import performance as P

        notes = []
        for i in range(n_notes):
            on, dur, p = kw["on%d" % i], kw["dur%d" % i], kw["p%d" % i]
            require(on >= 0)
            require(dur >= 0)
            require(on <= 1000)
            require(dur <= 1000)
            require(60 <= p <= 61)  # two pitch values: equal / different is what matters
            if one_pitch:  # overlapping notes and re-strikes of one pitch (several channels)
                require(p == 60)
            notes.append((on, on + dur, p))
        pedal = []
        controls = []
        for j in range(n_ctrl):
            ct, cv, is_sustain = kw["ct%d" % j], kw["cv%d" % j], kw["cn%d" % j]
            require(0 <= ct <= 2000)
            require(0 <= cv <= 127)
            controls.append(dict(time=ct, number=64 if is_sustain else 67, value=cv, track=0, channel=0))
            if is_sustain:
                for (t, v) in pedal:
                    require(t != ct)  # simultaneous pedal events have no defined order
                pedal.append((ct, cv))
        thr = kw["thr"]
        require(0 <= thr <= 127)

        extra = 0
        if preset:
            extra = kw["extra"]
            require(0 <= extra <= 1000)

        def build(threshold):
            nd = [dict(id="n%d" % i, midi_pitch=p, note_on=on, note_off=off, velocity=64, track=0, channel=i % 2)
                  for i, (on, off, p) in enumerate(notes)]
            if preset:  # note dicts that already carry a sounding end (copies of pedalled notes)
                for n_, (on, off, p) in zip(nd, notes):
                    n_["sound_off"] = off + extra
            return must_not_raise(P.PerformedPart, nd, id="P", controls=[dict(c) for c in controls],
                                  sustain_pedal_threshold=threshold, _what="PerformedPart()")

        pp = build(thr)
        obs = []
        for i, n in enumerate(pp.notes):
            so = n["sound_off"]
            off = notes[i][1]
            check(so >= off, "note sounds shorter than until its release", i, so, off)
            acc = ref_sound_off(i, notes, pedal, thr)
            ok = False
            for a in acc:
                if a is None or so == a:
                    ok = True
            check(ok, "sounding end is not what the pedal dictates", i, so, acc)
            obs.append(so)
        if two_thr:
            thr2 = kw["thr2"]
            require(thr <= thr2 <= 127)
            pp2 = build(thr2)
            for a, b in zip(pp.notes, pp2.notes):
                check(b["sound_off"] <= a["sound_off"], "raising the threshold lengthened a note", thr, thr2)
            # the setter recomputes every note
            def _set():
                pp.sustain_pedal_threshold = thr2

            must_not_raise(_set, _what="sustain_pedal_threshold setter")
            for a, b in zip(pp.notes, pp2.notes):
                check(a["sound_off"] == b["sound_off"], "setting the threshold did not recompute the sounding ends")
            # ... also when the value assigned is the current one: after the pedal events are taken away, assigning
            # the threshold again leaves every note ending at its release
            del pp.controls[:]

            def _set_same():
                pp.sustain_pedal_threshold = thr2

            must_not_raise(_set_same, _what="sustain_pedal_threshold setter (same value)")
            for i, n in enumerate(pp.notes):
                check(n["sound_off"] == notes[i][1], "assigning the current threshold did not recompute the sounding ends",
                      i, n["sound_off"], notes[i][1])
        return obs

    h.__signature__ = inspect.Signature(
        [inspect.Parameter(n, inspect.Parameter.KEYWORD_ONLY, annotation=ann[n]) for n in names])
    return h


def make_note_array(ppq, mpq):
    def h(on_ms: int, dur_ms: int, ext_ms: int, p: int, vel: int):
        import numpy as np
        from partitura import performance as P
        from engine import sym

        require(0 <= on_ms <= 10 ** 6)
        require(0 <= dur_ms <= 10 ** 5)
        require(0 <= ext_ms <= 10 ** 5)
        require(0 <= p <= 127)
        require(1 <= vel <= 127)
        if sym._ACTIVE["symbolic"]:
            return 0  # structured float32/int32 arrays: concrete vectors on the real numpy only
        on, off = on_ms / 1000.0, (on_ms + dur_ms) / 1000.0
        controls = []
        if ext_ms > 0:
            controls = [dict(time=max(0.0, off - 0.0005), number=64, value=127),
                        dict(time=off + ext_ms / 1000.0, number=64, value=0)]
        pp = P.PerformedPart([dict(id="a", midi_pitch=p, note_on=on, note_off=off, velocity=vel)],
                             controls=controls, ppq=ppq, mpq=mpq)
        na = must_not_raise(pp.note_array, _what="PerformedPart.note_array")
        so = pp.notes[0]["sound_off"]
        check(abs(float(na["onset_sec"][0]) - on) <= 1e-6 * (1 + on), "onset_sec")
        check(int(na["onset_tick"][0]) == round(1e6 * ppq * on / mpq), "onset_tick disagrees with onset_sec under ppq/mpq")
        check(abs(float(na["duration_sec"][0]) - (so - on)) <= 1e-6 * (1 + so), "duration_sec is not up to the sounding end")
        if so == off:
            check(int(na["duration_tick"][0]) == round(1e6 * ppq * off / mpq) - round(1e6 * ppq * on / mpq),
                  "duration_tick disagrees with duration_sec")
        check(int(na["pitch"][0]) == p and int(na["velocity"][0]) == vel, "pitch/velocity column")
        pp2 = must_not_raise(P.PerformedPart.from_note_array, na, _what="from_note_array")
        n2 = pp2.notes[0]
        check(n2["midi_pitch"] == p and n2["velocity"] == vel, "rebuilt part: pitch/velocity")
        check(abs(n2["note_on"] - on) <= 1e-6 * (1 + on) and abs(n2["sound_off"] - so) <= 1e-5 * (1 + so),
              "rebuilt part: onset / sounding end")
        return [float(na["onset_sec"][0]), int(na["onset_tick"][0]), int(na["duration_tick"][0])]

    return h


def make_tracks():
    def h(t0: int, t1: int, t2: int, u0: int, u1: int):
        from partitura import performance as P

        for v in (t0, t1, t2, u0, u1):
            require(0 <= v <= 3)
        mk = lambda i, tr: dict(id="n%d" % i, midi_pitch=60 + i, note_on=i, note_off=i + 1, velocity=64, track=tr)
        a = P.PerformedPart([mk(0, t0), mk(1, t1), mk(2, t2)], id="a")
        b = P.PerformedPart([mk(3, u0), mk(4, u1)], id="b")
        perf = must_not_raise(P.Performance, id="x", performedparts=[a, b], ensure_unique_tracks=True,
                              _what="Performance()")
        ta = [n["track"] for n in a.notes]
        tb = [n["track"] for n in b.notes]
        for x in ta:
            for y in tb:
                check(x != y, "two parts share a track number after sanitising", ta, tb)
        # notes that shared a track inside a part still do, others still differ
        for (new, old) in ((ta, [t0, t1, t2]), (tb, [u0, u1])):
            for i in range(len(new)):
                for j in range(len(new)):
                    check((new[i] == new[j]) == (old[i] == old[j]), "track renumbering mixed the tracks of a part", old, new)
        check(perf.num_tracks == len(set(ta)) + len(set(tb)), "num_tracks", perf.num_tracks)
        return [ta, tb]

    return h


def _inst(tier):
    if tier == "quick":
        return [{"n_notes": 1, "n_ctrl": 2}, {"n_notes": 2, "n_ctrl": 1},
                {"n_notes": 1, "n_ctrl": 2, "two_thr": True}, {"n_notes": 2, "n_ctrl": 0},
                {"n_notes": 1, "n_ctrl": 0, "preset": True, "two_thr": True}, {"n_notes": 1, "n_ctrl": 1, "preset": True},
                {"n_notes": 3, "n_ctrl": 1, "one_pitch": True}]
    return [{"n_notes": 1, "n_ctrl": 2}, {"n_notes": 2, "n_ctrl": 1}, {"n_notes": 2, "n_ctrl": 2},
            {"n_notes": 1, "n_ctrl": 3}, {"n_notes": 3, "n_ctrl": 1}, {"n_notes": 2, "n_ctrl": 3},
            {"n_notes": 1, "n_ctrl": 2, "two_thr": True}, {"n_notes": 2, "n_ctrl": 2, "two_thr": True},
            {"n_notes": 2, "n_ctrl": 0}, {"n_notes": 3, "n_ctrl": 2}, {"n_notes": 3, "n_ctrl": 2, "one_pitch": True}]


HARNESSES = [
    H("sustain", make, _inst, models=["symnp:partitura.performance"], budget={"quick": 120, "thorough": 900},
      functions=["adjust_offsets_w_sustain", "PerformedPart.__init__", "PerformedPart.sustain_pedal_threshold (setter)",
                 "PerformedNote.__init__", "PerformedNote._validate_*", "PerformedNote.__setitem__"],
      bounds="<=3 notes with symbolic real onset/duration in [0,1000] and pitch in {60,61} (equal or different), "
             "<=3 controls with symbolic time, value 0..127, controller 64 or 67, threshold 0..127 (two ordered "
             "thresholds for monotonicity); simultaneous pedal events excluded; coincidences of a release with a pedal "
             "event or re-strike accept either reading",
      outside="more notes/controls; simultaneous pedal events"),
    H("note_array", make_note_array, lambda tier: [{"ppq": 480, "mpq": 500000}, {"ppq": 96, "mpq": 600000}],
      budget={"quick": 20, "thorough": 60}, core=False,
      vectors=[{"on_ms": 0, "dur_ms": 500, "ext_ms": 0, "p": 60, "vel": 64},
               {"on_ms": 1234, "dur_ms": 777, "ext_ms": 300, "p": 0, "vel": 1},
               {"on_ms": 999999, "dur_ms": 0, "ext_ms": 0, "p": 127, "vel": 127},
               {"on_ms": 250, "dur_ms": 1, "ext_ms": 99999, "p": 64, "vel": 100}],
      functions=["PerformedPart.note_array", "PerformedPart.from_note_array"],
      bounds="float32/int32 structured arrays are outside the symbolic encoding: concrete vectors on the real numpy only"),
    H("tracks", make_tracks, lambda tier: [{}], budget={"quick": 120, "thorough": 400},
      functions=["Performance.__init__", "Performance.sanitize_track_numbers", "Performance.num_tracks"],
      bounds="two parts with 3 and 2 notes, track numbers 0..3 symbolic"),
]
