"""C06 — performance MIDI export and import preserve notes, controls and timing.

Engine A: `adjust_time`, `load_performance_midi` on in-memory mido files with
symbolic delta times, `save_performance_midi(out=None)` followed by an
independent reader and by `load_performance_midi`.  Tempo values and ppq are
concrete per instance (non-linear otherwise), ticks/times/pitches/values are
symbolic.
"""
import inspect

from engine.hdef import H, exclude_known
from engine.sym import check, must_not_raise, require

TOL = 1e-9


def seconds_exact_num(tick, changes, ppq):
    """10^6*ppq * seconds(tick) as an exact int expression; changes sorted by tick [(tick, mpq)],
    the first entry gives the tempo from tick 0."""
    total = 0
    last_t, last_m = 0, changes[0][1]
    for (ct, cm) in changes:
        if tick < ct:
            break
        total = total + (ct - last_t) * last_m
        last_t, last_m = ct, cm
    return total + (tick - last_t) * last_m


def close(got, num, den):
    err = got * den - num
    err = err if err >= 0 else -err
    an = num if num >= 0 else -num
    return err <= TOL * (den + an)


# ------------------------------------------------------------------ adjust_time
def make_adjust(mpqs, ppq):
    k = len(mpqs) - 1
    names = ["tick"] + ["c%d" % i for i in range(k)]

    def h(**kw):
        from partitura.io import importmidi as IM

        tick = kw["tick"]
        require(0 <= tick <= 10 ** 7)
        changes = [(0, mpqs[0])]
        prev = 0
        for i in range(k):
            c = kw["c%d" % i]
            require(prev <= c <= 10 ** 7)
            prev = c
            changes.append((c, mpqs[i + 1]))
        got = must_not_raise(IM.adjust_time, tick, list(changes), ppq, _what="adjust_time")
        check(close(got, seconds_exact_num(tick, changes, ppq), 10 ** 6 * ppq),
              "adjust_time is not the integral of the tempo map", tick, changes, got)
        return got

    h.__signature__ = inspect.Signature([inspect.Parameter(n, inspect.Parameter.KEYWORD_ONLY, annotation=int) for n in names])
    return h


# ------------------------------------------------------------------ load
# a track is a list of event templates; delta times are symbolic (d<i>)
#  ("tempo", mpq) ("on", ch, pitch_slot, vel_slot) ("off", ch, pitch_slot) ("on0", ch, pitch_slot) = note_on vel 0
#  ("cc", ch, number, value_slot) ("pc", ch, program) ("ts", 3, 8) ("ks", "Eb")
SHAPES = {
    "one_track_tempo_mid": [[("tempo", 600000), ("on", 0, 0, 0), ("tempo", 250000), ("off", 0, 0)]],
    "tempo_track_first": [[("tempo", 1000000), ("tempo", 250000)], [("on", 1, 0, 0), ("cc", 1, 64, 1), ("off", 1, 0)]],
    "tempo_track_second": [[("on", 0, 0, 0), ("on0", 0, 0)], [("tempo", 600000), ("tempo", 1000000)]],
    "tempo_both_tracks": [[("tempo", 600000), ("on", 0, 0, 0), ("off", 0, 0)], [("tempo", 250000), ("pc", 2, 5)]],
    "two_notes_ids": [[("on", 0, 0, 0), ("on", 0, 1, 1), ("off", 0, 0), ("on0", 0, 1)]],
    "same_pitch_twice": [[("on", 0, 0, 0), ("off", 0, 0), ("on", 0, 0, 1), ("on0", 0, 0)]],
    "meta": [[("ts", 3, 8), ("tempo", 600000), ("ks", "Eb"), ("on", 3, 0, 0), ("off", 3, 0), ("ts", 4, 4)]],
    "no_tempo": [[("on", 0, 0, 0), ("cc", 0, 67, 1), ("pc", 0, 9), ("off", 0, 0)]],
    # overlapping notes on neighbouring channels (pairing is per channel and pitch)
    "two_channels": [[("on", 0, 0, 0), ("on", 1, 1, 1), ("off", 0, 0), ("off", 1, 1)]],
    # a later track repeats the earlier track's last tempo value at an earlier tick
    "tempo_repeat_other_track": [[("tempo", 600000), ("tempo", 250000)], [("tempo", 250000), ("on", 0, 0, 0), ("off", 0, 0)]],
}


def make_load(shape, merge=False, ppq=480):
    tracks = SHAPES[shape]
    n_ev = sum(len(t) for t in tracks)
    names = ["d%d" % i for i in range(n_ev)] + ["p0", "p1", "v0", "v1"]

    def h(**kw):
        import mido
        from partitura.io import importmidi as IM

        p = [kw["p0"], kw["p1"]]
        v = [kw["v0"], kw["v1"]]
        # the loader keys a builtin dict by channel*128+pitch: hashing realises the pitch, so pitches are
        # restricted to three values (below / above the other note matters for the id order)
        require(p[0] == 60 or p[0] == 64 or p[0] == 127)
        require(p[1] == 62 or p[1] == 0)
        require(1 <= v[0] <= 127)
        require(1 <= v[1] <= 127)
        mf = mido.MidiFile(type=1 if len(tracks) > 1 else 0, ticks_per_beat=ppq)
        events = []  # (abs_tick, track, template)
        tempos = []
        k = 0
        for ti, tr in enumerate(tracks):
            mt = mido.MidiTrack()
            mf.tracks.append(mt)
            t = 0
            for ev in tr:
                d = kw["d%d" % k]
                k += 1
                require(0 <= d <= 10 ** 6)
                t = t + d
                kind = ev[0]
                if kind == "tempo":
                    mt.append(mido.MetaMessage("set_tempo", tempo=ev[1], time=d))
                    tempos.append((t, ev[1], ti))
                elif kind == "on":
                    mt.append(mido.Message("note_on", channel=ev[1], note=p[ev[2]], velocity=v[ev[3]], time=d))
                elif kind == "on0":
                    mt.append(mido.Message("note_on", channel=ev[1], note=p[ev[2]], velocity=0, time=d))
                elif kind == "off":
                    mt.append(mido.Message("note_off", channel=ev[1], note=p[ev[2]], velocity=0, time=d))
                elif kind == "cc":
                    mt.append(mido.Message("control_change", channel=ev[1], control=ev[2], value=v[ev[3]], time=d))
                elif kind == "pc":
                    mt.append(mido.Message("program_change", channel=ev[1], program=ev[2], time=d))
                elif kind == "ts":
                    mt.append(mido.MetaMessage("time_signature", numerator=ev[1], denominator=ev[2], time=d))
                elif kind == "ks":
                    mt.append(mido.MetaMessage("key_signature", key=ev[1], time=d))
                events.append((t, ti, ev))
        # tempo events at the same tick have no defined order across tracks
        for i in range(len(tempos)):
            for j in range(i + 1, len(tempos)):
                if tempos[i][2] != tempos[j][2]:
                    require(tempos[i][0] != tempos[j][0])
        changes = [(0, 500000)] + sorted([(t, m) for (t, m, _) in tempos], key=lambda e: e[0])
        perf = must_not_raise(IM.load_performance_midi, mf, merge_tracks=merge, _what="load_performance_midi")
        den = 10 ** 6 * ppq
        # expected notes: pair each on with next off of same channel/pitch in its track
        exp_notes = []
        for ti, tr in enumerate(tracks):
            open_ = {}
            for (t, tj, ev) in events:
                if tj != ti:
                    continue
                if ev[0] == "on":
                    open_[(ev[1], ev[2])] = (t, ev[3])
                elif ev[0] in ("off", "on0") and (ev[1], ev[2]) in open_:
                    t_on, vs = open_.pop((ev[1], ev[2]))
                    exp_notes.append(dict(track=0 if merge else ti, channel=ev[1], pitch=p[ev[2]], vel=v[vs],
                                          on=t_on, off=t))
        got_notes = [n for pp in perf.performedparts for n in pp.notes]
        check(len(got_notes) == len(exp_notes), "number of notes", len(got_notes), len(exp_notes))
        pool = list(got_notes)
        for e in exp_notes:
            hits = [n for n in pool if n["midi_pitch"] == e["pitch"] and n["note_on_tick"] == e["on"]
                    and n["note_off_tick"] == e["off"] and n["channel"] == e["channel"]]
            check(len(hits) >= 1, "note not found with its pitch/onset tick/offset tick/channel (pairing rule)", e)
            n = hits[0]
            pool = [x for x in pool if x is not n]
            check(n["velocity"] == e["vel"] or len(hits) > 1, "velocity", n["velocity"], e["vel"])
            check(close(n["note_on"], seconds_exact_num(e["on"], changes, ppq), den),
                  "onset seconds are not the integral of the file's tempo map", e["on"], n["note_on"])
            check(close(n["note_off"], seconds_exact_num(e["off"], changes, ppq), den),
                  "offset seconds are not the integral of the file's tempo map", e["off"], n["note_off"])
            check(n["sound_off"] >= n["note_off"] - 1e-9, "sounding end before release after loading",
                  n["sound_off"], n["note_off"])
        # ids in order of (onset, pitch, offset, channel, track) within each part
        for pp in perf.performedparts:
            keys = [(n["note_on"], n["midi_pitch"], n["note_off"], n["channel"], n["track"]) for n in pp.notes]
            ids = [n["id"] for n in pp.notes]
            check(ids == ["n%d" % i for i in range(len(ids))], "ids are not n0..nk in list order", ids)
            for a, b in zip(keys[:-1], keys[1:]):
                check(a <= b, "notes/ids not ordered by onset, pitch, offset, channel, track", keys)
        # controls / programs / signatures
        for (t, ti, ev) in events:
            pps = perf.performedparts
            if ev[0] == "cc":
                hits = [c for pp in pps for c in pp.controls if c["number"] == ev[2] and c["time_tick"] == t]
                check(len(hits) == 1 and hits[0]["value"] == v[ev[3]] and hits[0]["channel"] == ev[1],
                      "control change lost or altered", ev)
                check(close(hits[0]["time"], seconds_exact_num(t, changes, ppq), den), "control time", t)
            elif ev[0] == "pc":
                hits = [c for pp in pps for c in pp.programs if c["program"] == ev[2] and c["time_tick"] == t]
                check(len(hits) == 1 and hits[0]["channel"] == ev[1], "program change lost or altered", ev)
                check(close(hits[0]["time"], seconds_exact_num(t, changes, ppq), den), "program time", t)
            elif ev[0] == "ts":
                hits = [c for pp in pps for c in pp.time_signatures if c["time_tick"] == t and c["beats"] == ev[1]]
                check(len(hits) >= 1 and hits[0]["beat_type"] == ev[2], "time signature lost", ev)
                check(close(hits[0]["time"], seconds_exact_num(t, changes, ppq), den), "time signature time", t)
            elif ev[0] == "ks":
                hits = [c for pp in pps for c in pp.key_signatures if c["time_tick"] == t]
                check(len(hits) == 1 and hits[0]["key_name"] == ev[1], "key signature lost", ev)
        return [[n["note_on"], n["note_off"]] for n in got_notes]

    h.__signature__ = inspect.Signature([inspect.Parameter(n, inspect.Parameter.KEYWORD_ONLY, annotation=int) for n in names])
    return h


# ------------------------------------------------------------------ save (+ load back)
def read_midi(mf):
    """independent reader: absolute ticks per track"""
    out = []
    for ti, tr in enumerate(mf.tracks):
        t = 0
        for msg in tr:
            t = t + msg.time
            out.append((ti, t, msg))
    return out


def make_save(kind, ppq, mpq, same_pitch=False, merge=False):
    def h(on0: int, dur0: int, on1: int, dur1: int, p0: int, p1: int, v0: int, ct: int, cv: int):
        from partitura import performance as P
        from partitura.io import exportmidi as EM
        from partitura.io import importmidi as IM

        # times in milliseconds (exact decimals as floats are irrelevant under the real model)
        for x in (on0, dur0, on1, dur1, ct):
            require(0 <= x <= 10 ** 6)
        require(p0 == 60 or p0 == 64 or p0 == 127)
        require(p1 == 62 or p1 == p0)
        if same_pitch:
            require(p0 == p1)
            require(on0 + dur0 <= on1)  # same pitch, same channel: must not overlap (may touch)
        else:
            require(p0 != p1)
        require(1 <= v0 <= 127)
        require(0 <= cv <= 127)
        sec = lambda ms: ms / 1000
        notes = [dict(id="a", midi_pitch=p0, note_on=sec(on0), note_off=sec(on0 + dur0), velocity=v0, track=0, channel=0),
                 dict(id="b", midi_pitch=p1, note_on=sec(on1), note_off=sec(on1 + dur1), velocity=64, track=0, channel=0)]
        controls = [dict(time=sec(ct), number=67, value=cv, track=0, channel=0)]
        programs = [dict(time=0.0, program=7, track=0, channel=0)]
        if kind == "one":
            require(on1 == 0)
            require(dur1 == 0)
            require(p1 == 62)
            notes[1]["note_on"] = notes[1]["note_off"] = 0.0
            require(ct == 0)
        else:
            require(ct == on0)  # two-note shapes: the control shares the first onset (fewer orderings)
        if kind == "two_parts":
            notes[1]["track"] = 1
            notes[1]["channel"] = 3
            ppa = P.PerformedPart([notes[0]], id="A", controls=controls, programs=programs, track=0)
            ppb = P.PerformedPart([notes[1]], id="B", track=1)
            arg = P.Performance(id="x", performedparts=[ppa, ppb])
        else:
            pp = P.PerformedPart(notes, id="A", controls=controls, programs=programs)
            arg = {"part": pp, "one": pp, "performance": P.Performance(id="x", performedparts=[pp]), "list": [pp]}[kind]
        mf = must_not_raise(EM.save_performance_midi, arg, None, mpq=mpq, ppq=ppq, merge_tracks_save=merge,
                            _what="save_performance_midi")
        check(mf.ticks_per_beat == ppq, "ticks_per_beat")
        evs = read_midi(mf)
        tempos = [(t, m.tempo) for (_, t, m) in evs if m.type == "set_tempo"]
        check(tempos == [(0, mpq)], "tempo event", tempos)

        def tick_ok(tick, ms):
            # nearest tick: |tick*mpq*1000 - 1e6*ppq*ms| <= mpq*1000/2
            d = tick * mpq * 1000 - 10 ** 6 * ppq * ms
            d = d if d >= 0 else -d
            return 2 * d <= mpq * 1000

        for n in notes:
            on_ms = {"a": on0, "b": on1}[n["id"]]
            off_ms = on_ms + {"a": dur0, "b": dur1}[n["id"]]
            ons = [(ti, t, m) for (ti, t, m) in evs if m.type == "note_on" and m.velocity > 0 and m.note == n["midi_pitch"]
                   and m.channel == n["channel"] and tick_ok(t, on_ms)]
            check(len(ons) >= 1, "note_on not written at the nearest tick", n["id"])
            check(any(m.velocity == n["velocity"] for (_, _, m) in ons), "velocity not written", n["id"])
            offs = [(ti, t, m) for (ti, t, m) in evs if (m.type == "note_off" or (m.type == "note_on" and m.velocity == 0))
                    and m.note == n["midi_pitch"] and m.channel == n["channel"] and tick_ok(t, off_ms)]
            check(len(offs) >= 1, "note_off not written at the nearest tick", n["id"])
        ccs = [(t, m) for (_, t, m) in evs if m.type == "control_change"]
        check(len(ccs) == 1 and ccs[0][1].control == 67 and ccs[0][1].value == cv and tick_ok(ccs[0][0], ct),
              "control change not written")
        pcs = [(t, m) for (_, t, m) in evs if m.type == "program_change" and m.program == 7]
        check(len(pcs) == 1 and pcs[0][0] == 0, "program change not written")
        # load it back
        perf = must_not_raise(IM.load_performance_midi, mf, _what="load_performance_midi(saved)")
        got = [n for pp in perf.performedparts for n in pp.notes]
        check(len(got) == 2, "number of notes after reload", len(got))
        pool = list(got)
        for n in notes:
            on_ms = {"a": on0, "b": on1}[n["id"]]
            off_ms = on_ms + {"a": dur0, "b": dur1}[n["id"]]
            hits = [g for g in pool if g["midi_pitch"] == n["midi_pitch"] and g["channel"] == n["channel"]
                    and tick_ok(g["note_on_tick"], on_ms) and tick_ok(g["note_off_tick"], off_ms)
                    and g["velocity"] == n["velocity"]]
            check(len(hits) >= 1, "note not returned with onset/offset at the nearest tick, pitch, channel, velocity",
                  n["id"], [(g["note_on_tick"], g["note_off_tick"], g["velocity"]) for g in got])
            g = hits[0]
            pool = [x for x in pool if x is not g]
            check(close(g["note_on"], g["note_on_tick"] * mpq, 10 ** 6 * ppq), "reloaded onset seconds")
            if not merge:
                check(g["track"] == n["track"], "track after reload", g["track"], n["track"])
        return [[g["note_on_tick"], g["note_off_tick"]] for g in got]

    return h


def _adjust_inst(tier):
    base = [([500000, 250000], 480), ([500000, 600000, 1000000], 96), ([500000, 1000000, 250000, 600000], 1000)]
    return [{"mpqs": m, "ppq": p} for m, p in (base[:2] if tier == "quick" else base)]


def _load_inst(tier):
    if tier == "quick":
        return [{"shape": s} for s in ("one_track_tempo_mid", "tempo_track_first", "same_pitch_twice", "meta",
                                        "no_tempo", "tempo_both_tracks", "two_channels", "tempo_repeat_other_track")]
    out = [{"shape": s} for s in SHAPES]
    out += [{"shape": "tempo_track_first", "merge": True}]
    if tier != "quick":
        out += [{"shape": s, "merge": True} for s in ("tempo_both_tracks", "two_notes_ids")]
        out += [{"shape": "tempo_track_first", "ppq": 96}]
    return out


def _save_inst(tier):
    # two-note bookkeeping shapes use ppq/mpq with an integer (1 tick per ms) or half-integer (ties!) tick factor:
    # several independent roundings with a general factor make z3 answer unknown; the general factor is
    # covered by the single-note shape "one" below and by engine B.
    out = [{"kind": "part", "ppq": 500, "mpq": 500000}, {"kind": "list", "ppq": 500, "mpq": 500000},
           {"kind": "performance", "ppq": 500, "mpq": 500000, "same_pitch": True},
           {"kind": "two_parts", "ppq": 500, "mpq": 500000},
           {"kind": "one", "ppq": 480, "mpq": 500000}, {"kind": "one", "ppq": 96, "mpq": 600000}]
    if tier != "quick":
        out += [{"kind": "two_parts", "ppq": 1000, "mpq": 1000000, "merge": True},
                {"kind": "part", "ppq": 250, "mpq": 500000, "same_pitch": True},
                {"kind": "performance", "ppq": 250, "mpq": 500000},
                {"kind": "one", "ppq": 1000, "mpq": 250000}, {"kind": "one", "ppq": 384, "mpq": 416666}]
    return out


HARNESSES = [
    H("adjust_time", make_adjust, _adjust_inst, budget={"quick": 60, "thorough": 300},
      functions=["importmidi.adjust_time", "music.midi_ticks_to_seconds"],
      bounds="<=3 tempo changes at symbolic non-decreasing ticks <= 10^7, mpq/ppq from listed sets, symbolic query tick"),
    H("load", make_load, _load_inst, budget={"quick": 150, "thorough": 900},
      models=["symnp:partitura.performance"],
      functions=["importmidi.load_performance_midi", "importmidi.adjust_time", "importmidi.note_hash",
                 "PerformedPart.__init__", "Performance.__init__", "adjust_offsets_w_sustain", "mido.MidiFile/MidiTrack/Message (in memory)"],
      bounds="in-memory MIDI files from the SHAPES catalogue (1-2 tracks, <=2 notes, tempo events in any track, "
             "zero-velocity note-ons, control/program/meta events), all delta times symbolic ints <= 10^6, "
             "velocities symbolic, pitches from {0,60,62,64,127}; tempo events of different tracks at the same tick excluded",
      outside="file bytes (mido parser/writer); more events"),
    H("save", make_save, _save_inst, budget={"quick": 150, "thorough": 900},
      models=["symnp:partitura.performance,partitura.io.exportmidi", "symdict_exportmidi"],
      functions=["exportmidi.save_performance_midi", "importmidi.load_performance_midi"],
      bounds="two notes (different pitch, or same pitch non-overlapping), one control, one program; times symbolic "
             "milliseconds <= 10^6; input as PerformedPart, Performance, list, two parts/tracks; listed ppq/mpq",
      outside="IEEE rounding of round(1e6*ppq*t/mpq) (engine B)"),
]
