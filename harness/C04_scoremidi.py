"""C04 — score -> MIDI (-> score) preserves every note's timing and pitch exactly.

Engine B: the tick conversion `save_score_midi.to_ppq` is translated from the
live source (relative-error lemma + conversion step; bit-precise search when
the proof fails) and every model found is replayed through the public API by
the `to_ppq_replay` harness.
Engine A: `save_score_midi(out=None)` on small scores with symbolic onsets,
durations, pitches, voices, velocity and minimum_ppq, read back by an
independent reader; `map_to_track_channel` against the documented table.
"""
import inspect
from math import gcd

from engine.hdef import H
from engine.sym import check, must_not_raise, require


def read_midi(mf):
    out = []
    for ti, tr in enumerate(mf.tracks):
        t = 0
        for msg in tr:
            t = t + msg.time
            out.append((ti, t, msg))
    return out


# ------------------------------------------------------------------ replay of engine-B models (concrete)
def make_to_ppq_replay():
    def h(q: int, t: int):
        import partitura.score as S
        from partitura.io import exportmidi as EM

        from engine import sym

        require(1 <= q <= 960)
        require(0 <= t <= 4 * q)
        if sym._ACTIVE["symbolic"]:
            return 0  # concrete replay harness (engine B decides the kernel)
        part = S.Part("P", quarter_duration=q)
        part.add(S.TimeSignature(4, 4), 0)
        part.add(S.Note("C", 4, id="n0", voice=1), t, 4 * q)
        part.add(S.Note("D", 4, id="n1", voice=1), 0, 0 + (t if t > 0 else 1))
        mf = must_not_raise(EM.save_score_midi, part, None, _what="save_score_midi")
        check(mf.ticks_per_beat == q, "ticks per quarter is not the divisions value", mf.ticks_per_beat, q)
        ons = [tt for (_, tt, m) in read_midi(mf) if m.type == "note_on" and m.note == 60]
        check(ons == [t], "note onset tick is not the exact integer image of the musical time", q, t, ons)
        return [int(x) for x in ons]

    return h


# ------------------------------------------------------------------ engine A: export + independent reader
def lcm(a, b):
    return a * b // gcd(a, b)


def expected_channels(mode, keys):
    """documented table: keys = [(group, part_index, voice)] in first-appearance order -> {(track, channel)}"""
    tr, ch = {}, {}
    trh, chh = {}, {}
    for (g, p, v) in keys:
        if mode == 0:
            t = trh.setdefault(p, len(trh))
            c1 = chh.setdefault(p, {})
            c = c1.setdefault(v, len(c1) + 1)
        elif mode == 1:
            gk = g if g is not None else ("part", p)
            t = trh.setdefault(gk, len(trh))
            c1 = chh.setdefault(gk, {})
            c = c1.setdefault(p, len(c1) + 1)
        elif mode == 2:
            t = 0
            c = chh.setdefault(p, len(chh) + 1)
        elif mode == 3:
            t = trh.setdefault(p, len(trh))
            c = 1
        elif mode == 4:
            t, c = 0, 1
        else:
            t = trh.setdefault((p, v), len(trh))
            c = 1
        tr[(g, p, v)], ch[(g, p, v)] = t, c
    return tr, ch


def make_export(qs, mode, anacrusis="shift", min_ppq=0, pickup=False, pin_second=False, grace=False, q2=None):
    """parts with divisions qs (one per part), each with one note in voice 1 and one in symbolic voice."""
    n_parts = len(qs)
    names = []
    for i in range(n_parts):
        names += ["on%da" % i, "du%da" % i, "on%db" % i, "du%db" % i, "v%d" % i]
    names += ["pa", "pb", "vel"]

    def h(**kw):
        import partitura.score as S
        from partitura.io import exportmidi as EM

        pa, pb, vel = kw["pa"], kw["pb"], kw["vel"]
        require(0 <= pa <= 10)
        require(0 <= pb <= 10)
        require(pa != pb)
        require(1 <= vel <= 127)
        steps = "CDEFGAB"
        parts, exp = [], []
        ppq = 1
        for q in qs:
            ppq = lcm(ppq, q)
        if q2:
            ppq = lcm(ppq, q2)  # part 0 changes its divisions to q2 at the second barline
        while ppq < min_ppq:
            ppq *= 2
        for i, q in enumerate(qs):
            part = S.Part("P%d" % i, quarter_duration=q)
            part.add(S.TimeSignature(4, 4), 0)
            bar = 4 * q
            first_len = (bar - q) if pickup else bar  # pickup: first measure is one quarter short
            if pickup:
                part.add(S.Measure(number=1), 0, first_len)
                part.add(S.Measure(number=2), first_len, first_len + bar)
            ona, dua, onb, dub, v = (kw[k % i] for k in ("on%da", "du%da", "on%db", "du%db", "v%d"))
            require(dub == 1)  # second note: symbolic onset, one division long (fewer orderings)
            if i > 0:
                require(dua == 1)
                if pin_second:
                    require(ona == 0)  # quick tier: only the second note of the second part moves
            chg = q2 if (q2 and i == 0) else None
            for (on, du) in ((ona, dua), (onb, dub)):
                require(0 <= on)
                require(1 <= du)
                require(on + du <= first_len + (4 * chg if chg else bar))
            if chg:
                part.set_quarter_duration(first_len, chg)
            if not pickup:
                # without measures the quarter map starts at the first time point: pin it to 0 (see KF-C02)
                require(ona == 0 or onb == 0)
            require(1 <= v <= 2)
            # same pitch must not overlap within a channel: the two notes of a part have different pitches
            na = S.Note(steps[0], 4 + i, alter=None, id="a%d" % i, voice=1)
            nb = S.Note(steps[1], 4 + i, alter=None, id="b%d" % i, voice=v)
            part.add(na, ona, ona + dua)
            part.add(nb, onb, onb + dub)
            if i == 0 and grace:
                # a grace note (zero duration) before note a: on and off share a tick, the on must come first
                part.add(S.GraceNote("acciaccatura", steps[2], 4, id="g0", voice=1), ona, ona)
            parts.append(part)
            shift = first_len if pickup else 0  # quarter_map is 0 at the first full measure

            def pos(t, q=q, chg=chg, c=first_len, shift=shift):
                """quarter position of timeline time t as (numerator, denominator)"""
                if chg and t > c:
                    return ((c - shift) * chg + (t - c) * q, q * chg)
                return (t - shift, q)

            for (nid, on, du, pitch, voice) in (("a", ona, dua, 12 * (5 + i) + 0, 1), ("b", onb, dub, 12 * (5 + i) + 2, v)):
                exp.append(dict(part=i, voice=voice, pitch=pitch, on=pos(on), off=pos(on + du)))
            if i == 0 and grace:
                exp.append(dict(part=0, voice=1, pitch=12 * 5 + 4, on=pos(ona), off=pos(ona)))
        arg = parts[0] if n_parts == 1 else S.Score(parts)
        mf = must_not_raise(EM.save_score_midi, arg, None, part_voice_assign_mode=mode, velocity=vel,
                            anacrusis_behavior=anacrusis, minimum_ppq=min_ppq, _what="save_score_midi")
        check(mf.ticks_per_beat == ppq, "ticks per quarter is not the lcm of the divisions (doubled to the minimum)",
              mf.ticks_per_beat, ppq)
        evs = read_midi(mf)
        # offset of musical time zero: with "shift" the first time point maps to tick 0
        first_q = None  # (num, den) of the smallest quarter position (negative in a pickup)
        zero_shift_num = 0
        if pickup:
            # all parts start one pickup before the first full bar: quarter_map(0) = -(bar-q)/q = -3 quarters
            zero_shift_num = 3 * ppq if anacrusis in ("shift", "time_sig_change") else 4 * ppq  # pad_bar: a full 4/4 bar
        keys = []
        for e in exp:
            k = (None, e["part"], e["voice"])
            if k not in keys:
                keys.append(k)
        # first-appearance order of keys in the exporter: notes of part 0 in timeline order, then part 1 ...
        tr_map, ch_map = expected_channels(mode, sorted(keys, key=lambda k: k[1]) if False else keys)
        for e in exp:
            on_tick_num = e["on"][0] * ppq  # / q
            off_tick_num = e["off"][0] * ppq
            q = e["on"][1]
            ons = [(ti, t, m) for (ti, t, m) in evs if m.type == "note_on" and m.velocity > 0 and m.note == e["pitch"]]
            check(len(ons) == 1, "exactly one note_on per sounding note", e["pitch"], len(ons))
            ti, t, m = ons[0]
            check((t - zero_shift_num) * q == on_tick_num, "onset tick is not ppq * quarter position", e, t)
            check(m.velocity == vel, "requested velocity not used", m.velocity, vel)
            offs = [(tj, t2, m2) for (tj, t2, m2) in evs if (m2.type == "note_off" or (m2.type == "note_on" and m2.velocity == 0))
                    and m2.note == e["pitch"]]
            check(len(offs) == 1, "exactly one note_off per sounding note", e["pitch"], len(offs))
            check((offs[0][1] - zero_shift_num) * e["off"][1] == off_tick_num, "offset tick is not ppq * quarter position", e, offs[0][1])
            check(offs[0][0] == ti and offs[0][2].channel == m.channel, "note_off in another track/channel")
            i_on = [k for k, ev in enumerate(evs) if ev[2] is m][0]
            i_off = [k for k, ev in enumerate(evs) if ev[2] is offs[0][2]][0]
            check(i_on < i_off, "note_off written before its note_on (zero-length / grace note)", e["pitch"])
            e["track"], e["channel"] = ti, m.channel
        # grouping of notes into tracks/channels per mode (as a partition: which notes share track / channel)
        for a in exp:
            for b in exp:
                same_part = a["part"] == b["part"]
                same_voice = same_part and a["voice"] == b["voice"]
                if mode == 0:
                    check((a["track"] == b["track"]) == same_part, "mode 0: one track per part")
                    if same_part:
                        check((a["channel"] == b["channel"]) == same_voice, "mode 0: channels by voice")
                elif mode in (1,):
                    pass  # groups: covered by the map_to_track_channel harness
                elif mode == 2:
                    check(a["track"] == b["track"] == 0, "mode 2: single track")
                    check((a["channel"] == b["channel"]) == same_part, "mode 2: channels by part")
                elif mode == 3:
                    check((a["track"] == b["track"]) == same_part, "mode 3: one track per part")
                    check(a["channel"] == b["channel"], "mode 3: single channel")
                elif mode == 4:
                    check(a["track"] == b["track"] == 0 and a["channel"] == b["channel"], "mode 4: single track and channel")
                elif mode == 5:
                    check((a["track"] == b["track"]) == same_voice, "mode 5: one track per (part, voice)")
        ts = sorted(set((int(t), int(m.numerator), int(m.denominator)) for (_, t, m) in evs if m.type == "time_signature"))
        if pickup and anacrusis == "time_sig_change":
            exp_ts = [(0, 3, 4), (3 * ppq, 4, 4)]  # the three-quarter pickup bar gets its own signature
        else:
            exp_ts = [(0, 4, 4)]
        check(ts == exp_ts, "time signatures are not written at their musical positions", ts, exp_ts)
        tempos = [(t, m.tempo) for (_, t, m) in evs if m.type == "set_tempo"]
        check(tempos == [(0, 500000)], "default tempo at tick 0", tempos)
        return [[e["track"], e["channel"]] for e in exp]

    h.__signature__ = inspect.Signature([inspect.Parameter(n, inspect.Parameter.KEYWORD_ONLY, annotation=int) for n in names])
    return h


def make_import_roundtrip(mode):
    """score -> MidiFile -> load_score_midi on concrete vectors (the importer runs pitch spelling / measure and tie
    construction on numeric arrays: outside the symbolic encoding)."""

    def h(on_a: int, du_a: int, on_b: int, du_b: int, unison: bool):
        import partitura.score as S
        from partitura.io import exportmidi as EM
        from partitura.io import importmidi as IM
        from engine import sym

        require(0 <= on_a <= 24)
        require(1 <= du_a <= 8)
        require(0 <= on_b <= 24)
        require(1 <= du_b <= 8)
        if sym._ACTIVE["symbolic"]:
            return 0
        q = 4
        part = S.Part("P0", quarter_duration=q)
        part.add(S.TimeSignature(4, 4), 0)
        part.add(S.Note("C", 4, id="a", voice=1), on_a, on_a + du_a)
        part.add(S.Note("C" if unison else "E", 4, id="b", voice=2), on_b, on_b + du_b)  # second voice, possibly a unison
        part.add(S.Note("G", 3, id="c", voice=1), 0, 1)
        p2 = S.Part("P1", quarter_duration=3)
        p2.add(S.TimeSignature(4, 4), 0)
        p2.add(S.Note("C", 4, id="d", voice=1), 0, 3)  # the same pitch in another part
        sc = S.Score([part, p2])
        exp = sorted([(on_a / q, du_a / q, 60), (on_b / q, du_b / q, 60 if unison else 64), (0.0, 1 / q, 55), (0.0, 1.0, 60)])
        mf = must_not_raise(EM.save_score_midi, sc, None, part_voice_assign_mode=mode, _what="save_score_midi")
        # the property's precondition: equal pitches must not overlap within one track/channel
        if mode in (2, 3, 4) or (mode in (1,)):
            pass
        back = must_not_raise(IM.load_score_midi, mf, part_voice_assign_mode=mode, _what="load_score_midi")
        na = back.note_array(include_divs_per_quarter=True)
        got = sorted((round(float(r["onset_div"]) / float(r["divs_pq"]), 6), round(float(r["duration_div"]) / float(r["divs_pq"]), 6),
                      int(r["pitch"])) for r in na)  # timeline positions in quarters (independent of where the importer puts bar lines)
        exp = sorted((round(a, 6), round(b, 6), c) for a, b, c in exp)
        # precondition of the property: equal pitches must not overlap within one track/channel
        ov = lambda s1, e1, s2, e2: s1 < e2 and s2 < e1
        same_channel_voices = mode in (2, 3, 4)          # voices of a part share a channel
        same_channel_parts = mode == 4                   # everything on one channel
        skip = False
        if unison and same_channel_voices and ov(on_a, on_a + du_a, on_b, on_b + du_b):
            skip = True
        if same_channel_parts and (ov(on_a, on_a + du_a, 0, q) or (unison and ov(on_b, on_b + du_b, 0, q))):
            skip = True
        if not skip:
            check(got == exp, "sounding notes after export and import differ", mode, got, exp)
        return got

    return h


def make_trch(mode):
    """map_to_track_channel against the documented table, 3 keys with symbolic group/part/voice ids."""

    def h(p0: int, v0: int, p1: int, v1: int):
        from partitura.io import exportmidi as EM
        from engine import sym

        keys = [(0, 1, 2)]
        for (p, v) in ((p0, v0), (p1, v1)):
            require(0 <= p <= 2)
            require(1 <= v <= 2)
            p, v = sym.realize(p), sym.realize(v)  # dictionary keys: enumerated by realisation
            k = (p // 2, p, v)  # parts 0 and 1 form group 0, part 2 is group 1
            if k not in keys:
                keys.append(k)
        res = must_not_raise(EM.map_to_track_channel, list(keys), mode, _what="map_to_track_channel")
        tr, ch = expected_channels(mode, keys)
        for k in keys:
            check(res[k] == (tr[k], ch[k]), "track/channel differs from the documented table", mode, k, res[k], (tr[k], ch[k]))
        return [list(res[k]) for k in keys]

    return h


def _exp_inst(tier):
    out = [{"qs": [2], "mode": 0, "grace": True}, {"qs": [3], "mode": 5, "min_ppq": 10, "grace": True}, {"qs": [2, 3], "mode": 2, "pin_second": True},
           {"qs": [2], "mode": 4, "pickup": True, "anacrusis": "pad_bar"}, {"qs": [2], "mode": 0, "anacrusis": "time_sig_change"},
           {"qs": [2], "mode": 0, "q2": 3}]
    if tier != "quick":
        out += [{"qs": [2, 3], "mode": 0, "pin_second": True}, {"qs": [4, 6], "mode": 2, "pin_second": True}, {"qs": [2, 3], "mode": 0}, {"qs": [4, 6], "mode": 2}, {"qs": [2, 3], "mode": 3}, {"qs": [12, 8], "mode": 5}, {"qs": [1], "mode": 1},
                {"qs": [2], "mode": 0, "pickup": True, "anacrusis": "pad_bar"}, {"qs": [2], "mode": 4, "pickup": True},
                {"qs": [3], "mode": 3, "pickup": True, "anacrusis": "time_sig_change"},
                {"qs": [4, 6], "mode": 4, "min_ppq": 100},
                {"qs": [2], "mode": 4, "pickup": True, "q2": 4}, {"qs": [4], "mode": 3, "q2": 6, "min_ppq": 20}]
    return out


def EXTRA(tier, seed):
    from harness import kernels

    res = kernels.to_ppq_obligations(tier)
    # a bit-precise model is only a candidate: replay it through the public API before it is reported
    from engine.run import _worker

    out = []
    for r in res:
        if r["status"] == "violation-candidate":
            job = {"module": "harness.C04_scoremidi", "harness": "to_ppq_replay", "params": {}, "mode": "real",
                   "vectors": [r["replay"]]}
            rr = _worker(job, 300).get("runs", [{}])[0]
            if rr.get("status") in ("violation", "exception"):
                r["status"] = "violation"
                r["replay"] = {"property": "C04", "module": "harness.C04_scoremidi", "harness": "to_ppq_replay",
                               "params": {}, "args": r["sample"], "real_outcome": rr, "from": "engine B bit-precise model"}
            else:
                r["status"] = "harness-error"
                r["detail"] = "bit-precise model does not reproduce through save_score_midi: %r -> %r" % (r["sample"], rr)
        out.append(r)
    return out


EXTRA_INFO = [{"name": "to_ppq (engine B)", "functions": ["exportmidi.save_score_midi.to_ppq (AST -> z3)"],
               "bounds": "single-segment quarter map, ftp=0, divisions q in the listed set (thorough: 1..960), ppq = q*{1,2,4,8} "
                         "<= 2^15, positions t <= 2^16, part length T <= 2^17; relative-error model of binary64 (no under/overflow "
                         "in these ranges); bit-precise search over q<=960, t<=4q when the proof fails",
               "outside": "several quarter-duration segments and non-zero ftp in the float analysis (their algebra is covered "
                          "by engine A / C02)"}]

HARNESSES = [
    H("to_ppq_replay", make_to_ppq_replay, lambda tier: [{}], budget={"quick": 30, "thorough": 30}, core=False,
      vectors=[{"q": 1, "t": 0}, {"q": 3, "t": 1}, {"q": 480, "t": 481}, {"q": 791, "t": 490}, {"q": 593, "t": 2190},
               {"q": 100, "t": 29}, {"q": 960, "t": 3839}],
      functions=["exportmidi.save_score_midi (concrete replay of engine-B models)"],
      bounds="concrete replay harness for engine B models; symbolic run is a no-op enumeration guard"),
    H("export", make_export, _exp_inst,
      models=["syminterp", "symdict", "symnp:partitura.score,partitura.io.exportmidi", "symdict_exportmidi", "realdict_generic"],
      budget={"quick": 450, "thorough": 1500},
      functions=["exportmidi.save_score_midi", "exportmidi.get_ppq", "exportmidi.map_to_track_channel",
                 "Part.quarter_map", "Part.notes_tied", "GenericNote.duration_tied", "Part.time_signature_map"],
      bounds="1-2 parts with listed divisions, two measures (optional one-quarter-short pickup), two notes per part "
             "with symbolic onset/duration (divs) and symbolic second voice 1..2, symbolic velocity; concrete mode / "
             "anacrusis policy / minimum_ppq / a divisions change of the first part at the second barline per instance",
      outside="file bytes; ties, grace notes, key/tempo marks (thorough adds some); load_score_midi"),
    H("import_roundtrip", make_import_roundtrip, lambda tier: [{"mode": m} for m in (0, 2, 5)], budget={"quick": 20, "thorough": 20}, core=False,
      vectors=[{"on_a": 0, "du_a": 8, "on_b": 4, "du_b": 4, "unison": True}, {"on_a": 4, "du_a": 4, "on_b": 0, "du_b": 8, "unison": True},
               {"on_a": 2, "du_a": 3, "on_b": 9, "du_b": 1, "unison": False}, {"on_a": 16, "du_a": 8, "on_b": 16, "du_b": 8, "unison": True}],
      functions=["importmidi.load_score_midi", "importmidi.create_part", "exportmidi.save_score_midi (concrete vectors, real libraries)"],
      bounds="import half of the property on concrete vectors only: two parts (divisions 4 and 3), two voices meeting on a unison, modes 0/2/5; onsets compared relative to the first note (the importer places bar lines / pickup itself)"),
    H("track_channel", make_trch, lambda tier: [{"mode": m} for m in range(6)], budget={"quick": 150, "thorough": 400},
      functions=["exportmidi.map_to_track_channel"],
      bounds="one fixed and two symbolic (group, part, voice) keys over 3 parts in 2 groups x 2 voices (enumerated), all six modes"),
]
