"""C09 — unfolding repeats concatenates segments along a valid path and nothing else.

Engine A on add_segments / get_paths / unfold_paths / Path / ScoreVariant /
new_part_from_path / unfold_part_maximal / unfold_part_minimal /
iter_unfolded_parts.  The repeat *structure* is a concrete template; the
lengths of the sections (in divisions) are symbolic, so every boundary, shift
and length of the result is decided symbolically.  One note fills each
section; a tie and a slur cross a section boundary.
"""
import inspect

from engine.hdef import H, exclude_known
from engine.sym import check, must_not_raise, require

# template: sections (names), marks, expected visit sequences
#   marks: ("repeat", first_section, last_section) ("ending", number_string, section) ("dacapo", after_section)
#          ("fine", after_section) ("segno", before_section) ("dalsegno", after_section) ("tocoda", after_section) ("coda", before_section)
TEMPLATES = {
    "plain": dict(sections="ABC", marks=[], maximal="ABC", minimal="ABC", n_variants=1, slur=True),
    # a tie over the first section boundary: the library formats a warning with the time points involved
    # (str.format realises them), so these templates enumerate small lengths
    "repeat_mid_tie": dict(sections="ABC", marks=[("repeat", "B", "B")], maximal="ABBC", minimal="ABC", n_variants=2, tie=True),
    "plain_tie": dict(sections="ABC", marks=[], maximal="ABC", minimal="ABC", n_variants=1, tie=True),
    "dacapo_fine_slur": dict(sections="AB", marks=[("fine", "A"), ("dacapo", "B")], maximal="ABA", minimal=None, n_variants=None, slur=True),
    "repeat_mid": dict(sections="ABC", marks=[("repeat", "B", "B")], maximal="ABBC", minimal="ABC", n_variants=2),
    "repeat_start": dict(sections="AB", marks=[("repeat", "A", "A")], maximal="AAB", minimal="AB", n_variants=2),
    "nested": dict(sections="ABCD", marks=[("repeat", "A", "C"), ("repeat", "B", "B")], maximal="ABBCABBCD", minimal="ABCD", n_variants=None),
    "repeat_mid_inner": dict(sections="ABC", marks=[("repeat", "B", "B")], maximal="ABBC", minimal="ABC", n_variants=2, inner="B"),
    "two_repeats": dict(sections="ABCD", marks=[("repeat", "A", "A"), ("repeat", "C", "C")], maximal="AABCCD", minimal="ABCD", n_variants=4),
    "volta": dict(sections="ABC", marks=[("repeat", "A", "B"), ("ending", "1", "B"), ("ending", "2", "C")],
                  maximal="ABAC", minimal="AC", n_variants=None),
    # dal segno al coda: the section after the segno ends at the to-coda mark (it is both target and origin of a leap).
    # Only the minimal unfolding is compared: which of the two readings the "maximal" policy takes is not stated.
    "segno_coda": dict(sections="ABCD", marks=[("segno", "B"), ("tocoda", "B"), ("dalsegno", "C"), ("coda", "D")],
                       maximal=None, minimal="ABCBD", n_variants=None),
    "dacapo_coda": dict(sections="ABCD", marks=[("tocoda", "A"), ("dacapo", "C"), ("coda", "D")],
                        maximal=None, minimal="ABCAD", n_variants=None),
    # a tie from the repeated section into its first ending: the second visit of A must not tie into the first ending's copy
    "volta_tie": dict(sections="ABC", marks=[("repeat", "A", "B"), ("ending", "1", "B"), ("ending", "2", "C")],
                      maximal="ABAC", minimal="AC", n_variants=None, tie=True),
    # a da capo / dal segno at the end without fine or coda: the jump is taken exactly once
    "dacapo_plain": dict(sections="AB", marks=[("dacapo", "B")], maximal="ABAB", minimal="AB", n_variants=None),
    "dalsegno_plain": dict(sections="ABC", marks=[("segno", "B"), ("dalsegno", "C")], maximal="ABCBC", minimal="ABC", n_variants=None),
    "dacapo_rep": dict(sections="ABC", marks=[("repeat", "A", "A"), ("dacapo", "C")], maximal="AABCAABC", minimal="ABC", n_variants=None),
    "dacapo_fine": dict(sections="AB", marks=[("fine", "A"), ("dacapo", "B")], maximal="ABA", minimal=None, n_variants=None),
    # three endings (two repeats sharing their start) and an ending with comma-separated numbers
    "volta3": dict(sections="ABCD", marks=[("repeat", "A", "B"), ("repeat", "A", "C"), ("ending", "1", "B"), ("ending", "2", "C"), ("ending", "3", "D")],
                   maximal="ABACAD", minimal="AD", n_variants=None),
    "volta_comma": dict(sections="ABCD", marks=[("repeat", "A", "B"), ("ending", "1,2", "B"), ("ending", "3", "C")],
                        maximal="ABABACD", minimal="ACD", n_variants=None),
    # a slur and a tuplet between two notes inside the repeated section: every visit has its own pair of brackets
    "repeat_mid_inner_slur": dict(sections="ABC", marks=[("repeat", "B", "B")], maximal="ABBC", minimal="ABC", n_variants=2, inner="B", inner_kind="slur"),
}


def build(template, L, q=4):
    """returns (part, section boundaries dict name->(start,end), notes dict)"""
    import partitura.score as S

    t = TEMPLATES[template]
    part = S.Part("P", quarter_duration=q)
    part.add(S.TimeSignature(4, 4), 0)
    part.add(S.KeySignature(0, "major"), 0)
    pos = 0
    bounds = {}
    notes = {}
    prev_note = None
    for i, name in enumerate(t["sections"]):
        start, end = pos, pos + L[i]
        bounds[name] = (start, end)
        part.add(S.Measure(number=i + 1), start, end)
        n = S.Note("CDEFGAB"[i], 4, id="n" + name, voice=1, staff=1)
        if name in t.get("inner", ""):
            # two tied notes and a grace note inside the section (references that must stay inside each visit)
            part.add(n, start, start + 1)
            n2 = S.Note("CDEFGAB"[i], 4, id="m" + name, voice=1, staff=1)
            part.add(n2, start + 1, end)
            if t.get("inner_kind") == "slur":
                part.add(S.Slur(start_note=n, end_note=n2), start, end)
                part.add(S.Tuplet(start_note=n, end_note=n2), start, end)
                fm = S.Fermata(n)  # a fermata on the first note: note.fermata / fermata.ref are references too
                n.fermata = fm
                part.add(fm, start)
            else:
                n.tie_next, n2.tie_prev = n2, n
            part.add(S.GraceNote("grace", "CDEFGAB"[i], 5, id="g" + name, voice=1, staff=1), start, start)
        else:
            part.add(n, start, end)
        notes[name] = n
        pos = end
    # a tie over the first section boundary and a slur over the last one
    secs = t["sections"]
    if len(secs) >= 2:
        if t.get("tie"):
            a, b = notes[secs[0]], notes[secs[1]]
            a.tie_next, b.tie_prev = b, a
        if t.get("slur"):
            sl = S.Slur(start_note=notes[secs[-2]], end_note=notes[secs[-1]])
            part.add(sl, bounds[secs[-2]][0], bounds[secs[-1]][1])
    for m in t["marks"]:
        if m[0] == "repeat":
            part.add(S.Repeat(), bounds[m[1]][0], bounds[m[2]][1])
        elif m[0] == "ending":
            part.add(S.Ending(m[1]), bounds[m[2]][0], bounds[m[2]][1])
        elif m[0] == "dacapo":
            part.add(S.DaCapo(), bounds[m[1]][1])
        elif m[0] == "fine":
            part.add(S.Fine(), bounds[m[1]][1])
        elif m[0] == "segno":
            part.add(S.Segno(), bounds[m[1]][0])
        elif m[0] == "coda":
            part.add(S.Coda(), bounds[m[1]][0])
        elif m[0] == "tocoda":
            part.add(S.ToCoda(), bounds[m[1]][1])
        elif m[0] == "dalsegno":
            part.add(S.DalSegno(), bounds[m[1]][1])
    return part, bounds, notes


def fingerprint(part, with_segments=None):
    import partitura.score as S
    from engine.hdef import known_findings
    import os

    if with_segments is None:
        # recorded finding: Segment objects are cached on the part. While it is listed as known the comparison
        # ignores exactly those objects (and nothing else); otherwise they count as a modification.
        kf = known_findings().get("KF-C09-segments-cached-on-part", {})
        with_segments = not (kf.get("status") == "known" and os.environ.get("VERIF_KF_OFF") not in ("KF-C09-segments-cached-on-part", "ALL"))

    out = []
    for p in part._points:
        for cls, oo in sorted(p.starting_objects.items(), key=lambda e: e[0].__name__):
            if cls is S.Segment and not with_segments:
                continue
            for o in oo:
                out.append((p.t, cls.__name__, getattr(o, "id", None), o.end.t if o.end is not None else None,
                            getattr(getattr(o, "tie_next", None), "id", None), getattr(getattr(o, "tie_prev", None), "id", None),
                            p.prev.t if p.prev is not None else None, p.next.t if p.next is not None else None,
                            tuple(len(getattr(o, a, None) or []) for a in ("slur_starts", "slur_stops", "tuplet_starts", "tuplet_stops"))))
    return out


def check_unfolded(new, orig_part, bounds, visits, update_ids, label, template=None):
    """new part must be the concatenation of the sections in `visits`."""
    import partitura.score as S

    total = 0
    expected = []
    count = {}
    for name in visits:
        s, e = bounds[name]
        count[name] = count.get(name, 0) + 1
        expected.append((name, count[name], total, total + (e - s)))
        total = total + (e - s)
    check(new is not orig_part, label + ": unfolding returned the original part")
    check(new.last_point.t - new.first_point.t == total, label + ": length is not the sum of the visited sections",
          new.last_point.t, total)
    for cls in (S.Repeat, S.Ending, S.DaCapo, S.DalSegno, S.ToCoda, S.Segment):
        check(len(list(new.iter_all(cls))) == 0, label + ": %s left in the unfolded part" % cls.__name__)
    inner = TEMPLATES[template].get("inner", "") if template else ""
    allnotes = list(new.iter_all(S.Note, include_subclasses=True))
    got = sorted([n for n in allnotes if n.id.startswith("n")], key=lambda n: n.start.t)
    check(len(got) == len(expected), label + ": number of notes", len(got), len(expected))
    if inner:
        n_inner = sum(1 for v in visits if v in inner)
        seconds = sorted([n for n in allnotes if n.id.startswith("m")], key=lambda n: n.start.t)
        graces = sorted([n for n in allnotes if n.id.startswith("g")], key=lambda n: n.start.t)
        check(len(seconds) == n_inner and len(graces) == n_inner, label + ": tied second notes / grace notes per visit",
              len(seconds), len(graces), n_inner)
        ids = [n.id for n in allnotes]
        check(len(set(ids)) == len(ids) or not update_ids, label + ": duplicate note ids after unfolding", sorted(ids))
        firsts = [n for n in got if n.id[1] in inner]
        if TEMPLATES[template].get("inner_kind") == "slur":
            for cls, st, sp in ((S.Slur, "slur_starts", "slur_stops"), (S.Tuplet, "tuplet_starts", "tuplet_stops")):
                objs = sorted(new.iter_all(cls), key=lambda o: o.start.t)
                check(len(objs) == n_inner, label + ": one %s per visit of the section" % cls.__name__, len(objs), n_inner)
                for a, b, o in zip(firsts, seconds, objs):
                    check(o.start_note is a and o.end_note is b, label + ": %s of a visit does not join the notes of that visit" % cls.__name__,
                          getattr(o.start_note, "id", None), getattr(o.end_note, "id", None), a.id, b.id)
                    check(len(getattr(a, st)) == 1 and getattr(a, st)[0] is o and len(getattr(b, sp)) == 1 and getattr(b, sp)[0] is o,
                          label + ": %s lists of the copied notes do not hold the copy's own bracket" % cls.__name__, a.id, b.id)
                    check(o.start.t == a.start.t and o.end.t == b.end.t, label + ": %s extent is not the visit's extent" % cls.__name__, o.start.t, o.end.t)
            fms = sorted(new.iter_all(S.Fermata), key=lambda o: o.start.t)
            check(len(fms) == n_inner, label + ": one fermata per visit of the section", len(fms), n_inner)
            for a, fm in zip(firsts, fms):
                check(a.fermata is fm and fm.ref is a, label + ": fermata and note of a visit do not refer to each other (reference leaves the copy)",
                      a.id, getattr(getattr(a.fermata, "ref", None), "id", None), getattr(fm.ref, "id", None))
            firsts = []
        for a, b in zip(firsts, seconds):
            check(a.tie_next is b and b.tie_prev is a, label + ": tie inside a repeated section does not stay inside its visit",
                  a.id, getattr(a.tie_next, "id", None), a.end.t, getattr(getattr(a.tie_next, "start", None), "t", None))
            check(b.start.t == a.end.t, label + ": tied notes of one visit are not adjacent", a.end.t, b.start.t)
        if update_ids:
            for k, g in enumerate(graces):
                check(g.id.endswith("-%d" % (k + 1)), label + ": grace note id not suffixed with the visit number", g.id)
    times_visited = {n: sum(1 for v in visits if v == n) for n in set(visits)}
    for n, (name, k, s, e) in zip(got, expected):
        e_exp = (s + 1) if name in inner else e
        check(n.start.t == s and n.end.t == e_exp, label + ": note not at the shifted position", name, k, n.start.t, s)
        check(n.step == "CDEFGAB"["ABCDEFG".index(name)] and n.voice == 1 and n.staff == 1,
              label + ": pitch/voice/staff changed", name)
        if update_ids:
            check(n.id == "n%s-%d" % (name, k), label + ": id not suffixed with the visit number", n.id, name, k)
        else:
            check(n.id == "n" + name, label + ": id changed", n.id)
        check(any(n.start is p for p in new._points), label + ": note start is not a point of the new part")
        for ref in (n.tie_next, n.tie_prev):
            if ref is not None:
                check(any(ref is g for g in allnotes), label + ": tie reference leaves the copy", name)
        if n.tie_next is not None:
            check(n.tie_next.tie_prev is n and n.tie_next.start.t == n.end.t,
                  label + ": tie does not lead to the adjacent note of the same visit", name, n.end.t, n.tie_next.start.t)
        if n.tie_prev is not None:
            check(n.tie_prev.tie_next is n and n.tie_prev.end.t == n.start.t,
                  label + ": tie does not come from the adjacent note of the same visit", name, n.start.t, n.tie_prev.end.t)
    pts = list(new._points)
    for i, p in enumerate(pts):
        check(p.prev is (pts[i - 1] if i else None) and p.next is (pts[i + 1] if i + 1 < len(pts) else None),
              label + ": neighbouring time points of the copy are not linked to each other")
    for sl in new.iter_all(S.Slur):
        for ref in (sl.start_note, sl.end_note):
            if ref is not None:
                check(any(ref is g for g in allnotes), label + ": slur reference leaves the copy")
        if sl.start_note is not None and sl.end_note is not None:
            check(sl.start_note.start.t <= sl.end_note.start.t, label + ": slur runs backwards in the copy")
    return total


def make(template, update_ids=True):
    t = TEMPLATES[template]
    k = len(t["sections"])
    names = ["L%d" % i for i in range(k)]

    def h(**kw):
        import partitura.score as S

        L = [kw["L%d" % i] for i in range(k)]
        for x in L:
            # (templates with a tie over a section boundary make the library format a warning with the time points
            # involved, which realises them: small lengths there)
            require(1 <= x <= (4 if t.get("tie") else 10 ** 4))
        for i in range(2, k):
            # two symbolic lengths, the others pinned (fewer orderings of the shifted positions)
            require(L[i] == ((3 + i) if not t.get("tie") else 2 + (i % 2)))
        # recorded finding: an object that starts in a visited section and ends beyond it keeps its full extent
        exclude_known("KF-C09-crossing-object-extent", template == "dacapo_fine_slur")
        if t.get("inner"):
            for i, nm in enumerate(t["sections"]):
                if nm in t["inner"]:
                    require(L[i] >= 2)
        part, bounds, notes = build(template, L)
        before = fingerprint(part)
        mx = must_not_raise(S.unfold_part_maximal, part, update_ids=update_ids, _what="unfold_part_maximal")
        obs = []
        if t["maximal"] is not None:
            tot = check_unfolded(mx, part, bounds, t["maximal"], update_ids, "maximal", template)
            obs.append(int(tot))
        check(fingerprint(part) == before, "maximal: the original part was modified", before, fingerprint(part))
        if t["minimal"] is not None:
            mn = must_not_raise(S.unfold_part_minimal, part, _what="unfold_part_minimal")
            obs.append(int(check_unfolded(mn, part, bounds, t["minimal"], False, "minimal", template)))
            check(fingerprint(part) == before, "minimal: the original part was modified")
        if t["n_variants"] is not None:
            vs = list(must_not_raise(lambda: list(S.iter_unfolded_parts(part, update_ids=update_ids)), _what="iter_unfolded_parts"))
            check(len(vs) == t["n_variants"], "number of variants (2^r for r independent simple repeats)", len(vs), t["n_variants"])
            lens = sorted(v.last_point.t - v.first_point.t for v in vs)
            check(lens[-1] == tot, "longest variant is the maximal unfolding")
        if template == "plain":
            strip = (lambda e: (e[0], e[1], e[3])) if update_ids else (lambda e: e[:4])
            check([strip(e) for e in fingerprint(mx, False)] == [strip(e) for e in fingerprint(part, False)],
                  "a part without repeats does not unfold to an equal part")
        return obs

    h.__signature__ = inspect.Signature([inspect.Parameter(n, inspect.Parameter.KEYWORD_ONLY, annotation=int) for n in names])
    return h


def _inst(tier):
    out = [{"template": "plain"}, {"template": "repeat_mid"}, {"template": "volta"}, {"template": "repeat_start", "update_ids": False},
           {"template": "dacapo_fine"}, {"template": "nested"}, {"template": "repeat_mid_inner"}, {"template": "segno_coda"}, {"template": "volta_tie"}, {"template": "dacapo_plain"},
           {"template": "volta3"}, {"template": "volta_comma"}, {"template": "repeat_mid_inner_slur"}]
    if tier != "quick":
        out += [{"template": "two_repeats"}, {"template": "plain_tie"}, {"template": "repeat_mid_tie"}, {"template": "repeat_mid", "update_ids": False}, {"template": "volta", "update_ids": False},
                {"template": "dacapo_coda"}, {"template": "segno_coda", "update_ids": False}, {"template": "dalsegno_plain"}, {"template": "dacapo_rep"},
                {"template": "volta3", "update_ids": False}, {"template": "volta_comma", "update_ids": False}, {"template": "repeat_mid_inner_slur", "update_ids": False}]
    return out


MODELS = ["syminterp", "symdict", "symnp", "untraced_subclasses", "quiet_generic"]
HARNESSES = [
    H("unfold", make, _inst, models=MODELS, budget={"quick": 300, "thorough": 1500}, lazy_format=True,
      functions=["score.add_segments", "score.get_segments", "score.get_paths", "score.unfold_paths", "Path.*",
                 "ScoreVariant.add_segment", "ScoreVariant.create_variant_part", "score.new_part_from_path",
                 "score.unfold_part_maximal", "score.unfold_part_minimal", "score.iter_unfolded_parts",
                 "music.update_note_ids_after_unfolding", "ReplaceRefMixin.replace_refs"],
      bounds="templates: no repeat, simple repeat at the start / in the middle, nested repeats, a repeated section holding a tie and a grace note or a slur and a tuplet, two independent repeats, first/second "
             "ending, three endings (two repeats sharing their start), an ending numbered '1,2', plain da capo / dal segno, da capo al fine, dal segno al coda and da capo al coda (minimal unfolding); 2-4 sections with symbolic lengths 1..10^4 divisions; one note per section, a tie "
             "over the first and a slur over the last section boundary; update_ids on/off",
      outside="the maximal unfolding of coda layouts, four or more endings, division or signature changes inside sections"),
]
