"""C20 — exports, views and analyses never modify their argument and are repeatable.

Engine A: (1) container protocol of Score / Performance (len, index with a
symbolic int incl. negative, nested and interleaved iteration chosen by a
symbolic program selector); (2) a canonical fingerprint of a part with
symbolic times is taken before and after every read-only entry point that
the other harnesses encode, and each entry point is called twice with
identical results.
"""
import inspect

from engine.hdef import H, known_findings
from math import gcd
from engine.sym import check, must_not_raise, require


# ------------------------------------------------------------------ containers
def make_container(kind, n):
    def h(idx: int, prog: int):
        import partitura.score as S
        from partitura import performance as P

        require(-n - 1 <= idx <= n)
        require(0 <= prog <= 3)
        if kind == "score":
            items = [S.Part("P%d" % i) for i in range(n)]
            c = S.Score(items) if n else None
            if n == 0:
                c = S.Score([S.Part("only")])
                items = c.parts
        else:
            items = [P.PerformedPart([dict(id="n", midi_pitch=60 + i, note_on=0.0, note_off=1.0, velocity=64)], id="pp%d" % i)
                     for i in range(n)]
            c = P.Performance(id="x", performedparts=items)
        m = len(items)
        check(len(c) == m, "len()", len(c), m)
        if -m <= idx < m:
            check(c[idx] is items[idx], "indexing", idx)
        else:
            try:
                c[idx]
                ok = False
            except IndexError:
                ok = True
            check(ok, "index out of range did not raise IndexError", idx)
        if prog == 0:  # plain loop
            seen = [x for x in c]
            check(len(seen) == m and all(a is b for a, b in zip(seen, items)), "iteration visits every part once")
        elif prog == 1:  # nested loops over the same container
            outer = []
            for a in c:
                inner = [b for b in c]
                check(len(inner) == m and all(x is y for x, y in zip(inner, items)), "inner loop visits every part once")
                outer.append(a)
            check(len(outer) == m and all(x is y for x, y in zip(outer, items)), "outer loop of a nested iteration visits every part once",
                  len(outer), m)
        elif prog == 2:  # two interleaved iterators
            i1, i2 = iter(c), iter(c)
            got1, got2 = [], []
            for _ in range(m):
                got1.append(next(i1))
                got2.append(next(i2))
            check(all(x is y for x, y in zip(got1, items)) and all(x is y for x, y in zip(got2, items)),
                  "interleaved iterators each visit every part once")
        else:  # iteration twice in a row, and zip with itself
            check([x for x in c] == [x for x in c], "iterating twice gives the same sequence")
            pairs = list(zip(c, c))
            check(len(pairs) == m and all(a is b for a, b in pairs), "zip(c, c) pairs every part with itself", len(pairs), m)
        return m

    return h


# ------------------------------------------------------------------ fingerprints
def fp_part(part):
    import partitura.score as S

    ignore_seg = known_findings().get("KF-C09-segments-cached-on-part", {}).get("status") == "known"
    out = []
    for p in part._points:
        row = [p.t, p.quarter, p.prev.t if p.prev is not None else None, p.next.t if p.next is not None else None]
        for side, d in (("s", p.starting_objects), ("e", p.ending_objects)):
            for cls, oo in sorted(d.items(), key=lambda e: e[0].__name__):
                if cls is S.Segment and ignore_seg:
                    continue
                for o in oo:
                    row.append((side, cls.__name__, getattr(o, "id", None), getattr(o, "step", None), getattr(o, "alter", None),
                                getattr(o, "octave", None), getattr(o, "voice", None), getattr(o, "staff", None),
                                o.start.t if o.start is not None else None, o.end.t if o.end is not None else None,
                                getattr(getattr(o, "tie_next", None), "id", None),
                                str(getattr(o, "symbolic_duration", None)) if False else None,
                                getattr(o, "number", None), getattr(o, "beats", None), getattr(o, "fifths", None),
                                tuple(len(getattr(o, a, None) or []) for a in ("slur_starts", "slur_stops", "tuplet_starts", "tuplet_stops"))))
        out.append(row)
    out.append(("q", list(part._quarter_times), list(part._quarter_durations), part._use_musical_beat))
    return out


def fp_ppart(pp):
    srt = lambda d: [(k, d[k]) for k in sorted(d.keys())]  # no repr(): it would realise symbolic values
    return [srt(n.pnote_dict) for n in pp.notes] + [srt(c) for c in pp.controls] + [srt(c) for c in pp.programs] + \
           [pp.sustain_pedal_threshold, pp.ppq, pp.mpq]


def same(a, b):
    import numpy as np

    if isinstance(a, np.ndarray) and isinstance(b, np.ndarray):
        if a.dtype.names:
            return a.dtype.names == b.dtype.names and len(a) == len(b) and all(
                all(x == y or (x != x and y != y) for x, y in zip(a[n].tolist(), b[n].tolist())) for n in a.dtype.names)
        return a.shape == b.shape and all(x == y or (x != x and y != y) for x, y in zip(a.ravel().tolist(), b.ravel().tolist()))
    if isinstance(a, (list, tuple)) and isinstance(b, (list, tuple)):
        return len(a) == len(b) and all(same(x, y) for x, y in zip(a, b))
    return a == b or (a != a and b != b)


ENTRY = ["note_array", "note_array_full", "rest_array", "maps", "pretty", "save_score_midi", "transpose", "transpose_list",
         "transpose_group", "unfold", "pianoroll", "slice"]


def make_part_entry(entry):
    def h(on_a: int, d_a: int, on_b: int):
        import partitura.score as S
        from partitura.utils import music as M

        q, bar = 4, 16
        require(0 <= on_a)
        require(1 <= d_a)
        require(on_a + d_a + 1 <= 2 * bar)
        require(0 <= on_b <= 2 * bar - 2)
        if entry in ("pretty", "unfold", "transpose", "transpose_list", "transpose_group", "slice", "pianoroll"):
            require(on_b == 0)  # heavy entry points: one position pinned
        if entry == "pianoroll":
            require(d_a == 2)  # the roll enumerates frames: one symbolic position left
        part = S.Part("P", quarter_duration=q)
        part.add(S.TimeSignature(4, 4), 0)
        part.add(S.KeySignature(-2, "minor"), 0)
        part.add(S.Clef(1, "G", 2, 0), 0)
        part.add(S.Measure(number=1), 0, bar)
        part.add(S.Measure(number=2), bar, 2 * bar)
        a1 = S.Note("D", 4, 1, id="a1", voice=1, staff=1)
        a2 = S.Note("D", 4, 1, id="a2", voice=1, staff=1)
        a1.tie_next, a2.tie_prev = a2, a1
        part.add(a1, on_a, on_a + d_a)
        part.add(a2, on_a + d_a, on_a + d_a + 1)
        part.add(S.GraceNote("grace", "G", 5, id="g", voice=2, staff=1), on_b, on_b)
        part.add(S.Note("G", 3, id="b", voice=2, staff=1), on_b, on_b + 2)
        part.add(S.Rest(id="r", voice=1, staff=1), 0, 1)
        if entry == "unfold":
            part.add(S.Repeat(), 0, bar)
            part.add(S.Slur(start_note=a1, end_note=a2), on_a, on_a + d_a + 1)
        before = fp_part(part)

        def call():
            if entry == "note_array":
                return part.note_array()
            if entry == "note_array_full":
                return part.note_array(include_pitch_spelling=True, include_key_signature=True, include_time_signature=True,
                                       include_metrical_position=True, include_grace_notes=True, include_staff=True,
                                       include_divs_per_quarter=True)
            if entry == "rest_array":
                return part.rest_array()
            if entry == "maps":
                ts = [0, on_a, on_b, 2 * bar]
                return [[float(x) for x in part.beat_map(ts)], [float(x) for x in part.quarter_map(ts)],
                        [int(x) for x in part.time_signature_map(on_a)], [int(x) for x in part.key_signature_map(on_b)],
                        [int(x) for x in part.measure_map(on_a)], int(part.measure_number_map(on_b)),
                        [int(x) for x in part.metrical_position_map(on_a)], int(part.quarter_duration_map(on_b))] \
                    if False else [part.beat_map(ts), part.quarter_map(ts), part.time_signature_map(on_a),
                                   part.key_signature_map(on_b), part.measure_map(on_a), part.measure_number_map(on_b),
                                   part.metrical_position_map(on_a), part.quarter_duration_map(on_b)]
            if entry == "pretty":
                return part.pretty()
            if entry == "save_score_midi":
                from partitura.io import exportmidi as EM

                mf = EM.save_score_midi(part, None)
                return [[(m.type, m.time, getattr(m, "note", None)) for m in tr] for tr in mf.tracks]
            if entry == "transpose":
                res = M.transpose(part, S.Interval(3, "m"))
                return [(n.id, n.step, n.alter, n.octave, n.start.t) for n in res.notes]
            if entry in ("transpose_list", "transpose_group"):
                if entry == "transpose_group":
                    arg = S.PartGroup(group_name="g")
                    arg.children = [part]
                else:
                    arg = [part]
                res = M.transpose(arg, S.Interval(2, "M"))
                rp = list(S.iter_parts(res))[0]
                check(rp is not part, "transpose returned the argument's part")
                # (whether a list / group is transposed at all is not stated by C16/C20: only purity and repeatability here)
                return [(n.id, n.step, n.alter, n.octave, n.start.t) for n in rp.notes]
            if entry == "slice":
                na = part.note_array()
                before_na = na.copy()
                sl = M.slice_notearray_by_time(na, 1, bar, time_unit="div")
                check(same(na, before_na), "slice_notearray_by_time modified the array it was given")
                return sl
            if entry == "unfold":
                res = S.unfold_part_maximal(part)
                return [(n.id, n.start.t, n.end.t) for n in res.notes]
            if entry == "pianoroll":
                pr = M.compute_pianoroll(part.note_array(), time_unit="div", time_div=1, remove_silence=False)
                from envmodels.symsparse import entries_of

                return sorted(entries_of(pr), key=lambda e: (e[1], e[0]))
            raise KeyError(entry)

        r1 = must_not_raise(call, _what=entry)
        check(fp_part(part) == before, "%s modified its argument" % entry)
        r2 = must_not_raise(call, _what=entry + " (second call)")
        check(same(r1, r2), "%s gives a different result when called again" % entry)
        check(fp_part(part) == before, "%s modified its argument on the second call" % entry)
        return len(before)

    return h


def make_xml_entry():
    """save_musicxml goes through lxml: concrete vectors on the real library only."""

    def h(t_ped: int, closed: bool):
        import partitura
        import partitura.score as S
        from engine import sym

        require(0 <= t_ped <= 28)
        if sym._ACTIVE["symbolic"]:
            return 0
        part = S.Part("P1", "Piano", quarter_duration=4)
        part.add(S.TimeSignature(4, 4), 0)
        part.add(S.KeySignature(0, "major"), 0)
        part.add(S.Clef(staff=1, sign="G", line=2, octave_change=0), 0)
        for i, st in enumerate("CDEFGABC"):
            part.add(S.Note(step=st, octave=4, id="n%d" % i, voice=1, staff=1, symbolic_duration={"type": "quarter"}), 4 * i, 4 * i + 4)
        # polyphony inside voice 1 (a longer note under n0, a note still sounding when n5 starts): the exporter moves
        # such notes to free voices when writing - in the file, not in the score
        part.add(S.Note(step="E", octave=3, id="m0", voice=1, staff=1, symbolic_duration={"type": "half"}), 0, 8)
        part.add(S.Note(step="G", octave=3, id="m1", voice=1, staff=1, symbolic_duration={"type": "half"}), 18, 26)
        part.add(S.SustainPedalDirection(staff=1, line=True), 0, 8)
        if closed:
            part.add(S.SustainPedalDirection(staff=1, line=False), t_ped, 32)
        else:
            part.add(S.SustainPedalDirection(staff=1, line=False), t_ped)  # pressed, never released in the score
        part.add(S.Words("dolce", staff=1), t_ped)
        S.add_measures(part)
        scr = S.Score([part], id="demo")
        before = fp_part(part)
        dirs = lambda: [(type(d).__name__, d.start.t, None if d.end is None else d.end.t) for d in part.iter_all(S.Direction, include_subclasses=True)]
        d0 = dirs()
        x1 = must_not_raise(partitura.save_musicxml, scr, _what="save_musicxml")
        check(fp_part(part) == before and dirs() == d0, "save_musicxml modified the score", d0, dirs())
        x2 = must_not_raise(partitura.save_musicxml, scr, _what="save_musicxml (again)")
        check(x1 == x2, "save_musicxml is not repeatable")
        check(fp_part(part) == before and dirs() == d0, "save_musicxml modified the score on the second call")
        return len(x1)

    return h


def make_perf_entry():
    def h(on_ms: int, dur_ms: int, cv: int):
        from partitura import performance as P
        from partitura.io import exportmidi as EM

        require(0 <= on_ms <= 10 ** 5)
        require(0 <= dur_ms <= 10 ** 5)
        require(0 <= cv <= 127)
        on, dur, ct = on_ms / 1000, dur_ms / 1000, on_ms / 1000
        pp = P.PerformedPart([dict(id="a", midi_pitch=60, note_on=on, note_off=on + dur, velocity=70),
                              dict(id="b", midi_pitch=64, note_on=0.0, note_off=1.0, velocity=50)],
                             controls=[dict(time=ct, number=64, value=cv)], id="pp")
        perf = P.Performance(id="x", performedparts=[pp])
        before = fp_ppart(pp)
        m1 = must_not_raise(EM.save_performance_midi, perf, None, ppq=500, _what="save_performance_midi")
        check(fp_ppart(pp) == before, "save_performance_midi modified the performance")
        m2 = must_not_raise(EM.save_performance_midi, perf, None, ppq=500, _what="save_performance_midi (again)")
        t1 = [[(m.type, m.time) for m in tr] for tr in m1.tracks]
        t2 = [[(m.type, m.time) for m in tr] for tr in m2.tracks]
        check(t1 == t2, "save_performance_midi is not repeatable")
        return len(t1)

    return h


def _cont(tier):
    ns = (2, 3) if tier == "quick" else (1, 2, 3)
    return [{"kind": k, "n": n} for k in ("score", "performance") for n in ns]


def _entries(tier):
    q = ["note_array", "maps", "pretty", "save_score_midi", "transpose", "transpose_list", "transpose_group", "unfold", "slice"]
    return [{"entry": e} for e in (q if tier == "quick" else ENTRY) if e != "pianoroll"]  # pianoroll: own harness (models)


MODELS = ["syminterp", "symdict", "symnp:partitura.score,partitura.utils.generic,partitura.utils.music,partitura.io.exportmidi",
          "symppoly", "untraced_subclasses", "quiet_generic", "symdict_exportmidi", "realdict_generic", "symsparse", "symdict_music"]
HARNESSES = [
    H("containers", make_container, _cont, budget={"quick": 100, "thorough": 300},
      functions=["Score.__iter__/__next__/__getitem__/__len__", "Performance.__iter__/__next__/__getitem__/__len__"],
      bounds="containers of 1-3 parts; symbolic index in [-n-1, n]; four iteration programs (plain, nested, interleaved "
             "iterators, repeated / zipped) chosen by a symbolic selector"),
    H("part_entry", make_part_entry, _entries, models=MODELS, budget={"quick": 250, "thorough": 1200}, lazy_format=True,
      functions=["Part.note_array", "Part.rest_array", "Part.beat_map/quarter_map/time_signature_map/key_signature_map/"
                 "measure_map/measure_number_map/metrical_position_map/quarter_duration_map", "Part.pretty",
                 "exportmidi.save_score_midi", "music.transpose", "score.unfold_part_maximal", "music.compute_pianoroll"],
      bounds="one two-measure part (tie chain, grace note, second voice, rest, signatures, clef) with three symbolic "
             "positions; each entry point called twice; fingerprint of all points, links, objects and attributes",
      outside="save_musicxml / save_match (lxml, files), estimate_spelling/voices/key (numeric kernels), note arrays of scores"),
    H("pianoroll_entry", make_part_entry, lambda tier: [{"entry": "pianoroll"}],
      models=[m.replace("partitura.utils.music,", "partitura.utils.music!!,") for m in MODELS], budget={"quick": 250, "thorough": 1200},
      lazy_format=True, functions=["Part.note_array", "music.compute_pianoroll", "music._make_pianoroll"],
      bounds="same part; compute_pianoroll on its note array, called twice (the roll's index buffers are object arrays: "
             "symnp's zeros_object mode for utils.music)"),
    H("xml_entry", make_xml_entry, lambda tier: [{}], budget={"quick": 20, "thorough": 20}, core=False,
      vectors=[{"t_ped": 20, "closed": False}, {"t_ped": 0, "closed": True}, {"t_ped": 7, "closed": False}],
      functions=["exportmusicxml.save_musicxml (real lxml, concrete vectors only)"],
      bounds="save_musicxml needs lxml: concrete vectors only (open-ended and closed pedal marks, words)"),
    H("perf_entry", make_perf_entry, lambda tier: [{}],
      models=["symnp:partitura.performance,partitura.io.exportmidi", "symdict_exportmidi"], budget={"quick": 150, "thorough": 600},
      functions=["exportmidi.save_performance_midi"],
      bounds="performance with two notes and a pedal event, symbolic millisecond times and pedal value, ppq=500 (1 tick per ms)"),
]
