"""C01 — a Part is a consistent time-ordered collection under any edit history.

Method: lock-step execution of the real ``partitura.score.Part`` and a small
reference model over a concrete *operation script* whose times are symbolic
(unbounded non-negative ints).  After the script the full representation
invariant and query equivalence with the model are asserted.  The script is a
pre-state (<= 3 registered objects, <= 1 quarter change) followed by one or two
step operations; since the post-state is required to equal the model's
canonical state, one step from every small state stands for histories of any
length that stay within the bound.
"""
from engine.hdef import H
from engine import sym
from engine.sym import check, must_not_raise, require

# ------------------------------------------------------------------ reference
class Ref:
    """Reference model: objects with optional start/end times, explicit points,
    quarter-duration changes as a function of time."""

    def __init__(self, q0):
        self.objs = []  # [key, cls, start|None, end|None]
        self.explicit = []  # times of points requested via get_or_add_point
        self.q = [(0, q0)]  # sorted changes; semantic = step function

    def in_force(self, t):
        cur = self.q[0][1]
        for (ct, cq) in self.q:
            if ct <= t:
                cur = cq
        return cur

    def setq(self, t, q):
        # q in force on [t, next later change), nothing else changes.  A "change" is a time where the step function
        # was given a value that differed from the one in force: setting the duration already in force at a time
        # without an entry leaves the state as it is (the property speaks of changes; the implementation documents
        # "unless it is redundant") and therefore does not bound a later set at an earlier time.
        if not any(ct == t for (ct, cq) in self.q) and self.in_force(t) == q:
            return
        new = [(ct, cq) for (ct, cq) in self.q if ct != t]
        new.append((t, q))
        new.sort(key=lambda e: e[0])
        self.q = new

    def times(self):
        ts = []
        for o in self.objs:
            for v in (o[2], o[3]):
                if v is not None and not any(v == u for u in ts):
                    ts.append(v)
        for v in self.explicit:
            if not any(v == u for u in ts):
                ts.append(v)
        ts.sort()
        return ts

    def used(self, t):
        return any((o[2] is not None and o[2] == t) or (o[3] is not None and o[3] == t) for o in self.objs)

    def add(self, key, cls, s, e):
        for o in self.objs:
            if o[0] == key:
                if s is not None:
                    o[2] = s
                if e is not None:
                    o[3] = e
                return
        self.objs.append([key, cls, s, e])

    def remove(self, key, which):
        for o in self.objs:
            if o[0] == key:
                if which in ("start", "both") and o[2] is not None:
                    t = o[2]
                    o[2] = None
                    if not self.used(t):
                        self.explicit = [u for u in self.explicit if not (u == t)]
                if which in ("end", "both") and o[3] is not None:
                    t = o[3]
                    o[3] = None
                    if not self.used(t):
                        self.explicit = [u for u in self.explicit if not (u == t)]

    def query(self, classes, lo, hi, mode):
        """keys of objects of one of `classes` starting (ending) in [lo, hi)."""
        out = []
        for o in self.objs:
            t = o[2] if mode == "starting" else o[3]
            if t is None or o[1] not in classes:
                continue
            if lo is not None and t < lo:
                continue
            if hi is not None and t >= hi:
                continue
            out.append((t, o[0]))
        return out


# ------------------------------------------------------------------ scripts
# op = (kind, object-key, ...) ; time slots are indices into the symbolic vector
#   ("add", key, cls, s_slot|None, e_slot|None)
#   ("rm", key, which)
#   ("setq", t_slot, q)
#   ("pt", t_slot)
PRE = {
    "A": [("add", "A", "Note", 0, 1)],
    "AB": [("add", "A", "Note", 0, 1), ("add", "B", "Rest", 2, 3)],
    "AgB": [("add", "A", "Note", 0, 1), ("add", "B", "GraceNote", 2, None)],
    "AmB": [("add", "A", "Measure", 0, 1), ("add", "B", "Note", None, 3)],
    "Aq": [("add", "A", "Note", 0, 1), ("setq", 2, 2)],
    "ABq": [("add", "A", "Note", 0, 1), ("add", "B", "TimeSignature", 2, None), ("setq", 3, 3)],
    "ABC": [("add", "A", "Note", 0, 1), ("add", "B", "GraceNote", 2, 3), ("add", "C", "Measure", 4, 5)],
    "qq": [("add", "A", "Note", 0, 1), ("setq", 2, 2), ("setq", 3, 3)],
}
STEP = {
    "none": [],
    "addN": [("add", "N", "Note", 6, 7)],
    "addNs": [("add", "N", "Rest", 6, None)],
    "addNe": [("add", "N", "GraceNote", None, 7)],
    "rmA": [("rm", "A", "both")],
    "rmAs": [("rm", "A", "start")],
    "rmAe": [("rm", "A", "end")],
    "rmB": [("rm", "B", "both")],
    "setq": [("setq", 6, 2)],
    "setq1": [("setq", 6, 1)],
    "setq3": [("setq", 6, 3)],
    "pt": [("pt", 6)],
    "pt_rmA": [("pt", 6), ("rm", "A", "both")],
    "rmA_rmB": [("rm", "A", "both"), ("rm", "B", "both")],
    "rmAs_rmAe": [("rm", "A", "start"), ("rm", "A", "end")],
    "rmA_addA": [("rm", "A", "both"), ("add", "A", "Note", 6, 7)],
    "setq_setq": [("setq", 6, 2), ("setq", 7, 1)],
    "setq_same": [("setq", 6, 2), ("setq", 6, 1)],
}

QUICK = [("A", "rmA"), ("A", "addN"), ("AB", "rmA"), ("AB", "rmB"), ("AgB", "rmAe"), ("AmB", "rmAs"),
         ("Aq", "setq1"), ("Aq", "setq3"), ("Aq", "pt"), ("AB", "addNs"), ("ABq", "rmB"), ("A", "setq_same"), ("AB", "pt_rmA"),
         ("A", "rmAs_rmAe"), ("AgB", "addNe"), ("AmB", "setq")]


QUERY_Q = ["AB", "AgB", "AmB"]
QUERY_T = ["A", "AB", "AgB", "AmB", "ABq", "ABC"]


def _instances(tier):
    if tier == "quick":
        return ([{"pre": p, "step": s} for p, s in QUICK]
                + [{"pre": p, "step": "none", "query": True} for p in QUERY_Q])
    out = [{"pre": p, "step": "none", "query": True, "full": True} for p in ("A", "AB", "AgB", "AmB")]
    out += [{"pre": p, "step": "none", "query": True} for p in ("ABq", "ABC")]
    for p in PRE:
        for s in STEP:
            if s == "none":
                continue
            if p == "ABC" and s not in ("rmA", "rmB", "addNs", "setq3", "pt"):
                continue  # three pre-registered objects: single steps only (six symbolic times already)
            keys = {op[1] for op in PRE[p] if op[0] == "add"}
            need = {op[1] for op in STEP[s] if op[0] == "rm"}
            if need <= keys:
                out.append({"pre": p, "step": s})
    return out


def _classes():
    import partitura.score as S

    return {"Note": S.Note, "GraceNote": S.GraceNote, "Rest": S.Rest, "Measure": S.Measure,
            "TimeSignature": S.TimeSignature, "GenericNote": S.GenericNote, "TimedObject": S.TimedObject}


def _mk(cls, key):
    import partitura.score as S

    if cls == "Note":
        return S.Note("C", 4, id=key)
    if cls == "GraceNote":
        return S.GraceNote("grace", "D", 4, id=key)
    if cls == "Rest":
        return S.Rest(id=key)
    if cls == "Measure":
        return S.Measure(number=1)
    if cls == "TimeSignature":
        return S.TimeSignature(4, 4)
    raise KeyError(cls)


SUBCLS = {
    "Note": ["Note", "GraceNote"], "GraceNote": ["GraceNote"], "Rest": ["Rest"], "Measure": ["Measure"],
    "TimeSignature": ["TimeSignature"], "GenericNote": ["Note", "GraceNote", "Rest"],
    "TimedObject": ["Note", "GraceNote", "Rest", "Measure", "TimeSignature"],
}


def check_state(part, ref, objs, qv, label, full=False):
    """Representation invariant + query equivalence (the property's assertion)."""
    import partitura.score as S

    C = _classes()
    pts = list(part._points)
    exp_times = ref.times()
    check(len(pts) == len(exp_times), label + ": number of time points differs from registered times",
          [p.t for p in pts], exp_times)
    for p, t in zip(pts, exp_times):
        check(p.t == t, label + ": time point at wrong time")
    for i, p in enumerate(pts):
        check(p.t >= 0, label + ": negative time point")
        if i > 0:
            check(pts[i - 1].t < p.t, label + ": points not strictly increasing")
        check(p.prev is (pts[i - 1] if i > 0 else None), label + ": prev link is not the true predecessor", i)
        check(p.next is (pts[i + 1] if i + 1 < len(pts) else None), label + ": next link is not the true successor", i)
        check(p.quarter == ref.in_force(p.t), label + ": point does not carry the quarter duration in force",
              p.t, p.quarter)
        n_obj = sum(len(v) for v in p.starting_objects.values()) + sum(len(v) for v in p.ending_objects.values())
        if n_obj == 0:
            check(any(p.t == u for u in ref.explicit), label + ": empty time point left behind", p.t)
    check(part.first_point is (pts[0] if pts else None), label + ": first_point")
    check(part.last_point is (pts[-1] if pts else None), label + ": last_point")
    # every object's start/end is the very point that lists it
    for key, cls, s, e in ref.objs:
        o = objs[key]
        if s is None:
            check(o.start is None, label + ": start should be unset", key)
        else:
            check(o.start is not None and o.start.t == s, label + ": object start time", key)
            check(any(o.start is p for p in pts), label + ": object's start point is not on the timeline", key)
            check(o in o.start.starting_objects[type(o)], label + ": start point does not list the object", key)
            check(part.get_point(s) is o.start, label + ": get_point(start) is not the start point", key)
        if e is None:
            check(o.end is None, label + ": end should be unset", key)
        else:
            check(o.end is not None and o.end.t == e, label + ": object end time", key)
            check(any(o.end is p for p in pts), label + ": object's end point is not on the timeline", key)
            check(o in o.end.ending_objects[type(o)], label + ": end point does not list the object", key)
    # no foreign registrations
    for p in pts:
        for d, side in ((p.starting_objects, 2), (p.ending_objects, 3)):
            for k, oo in d.items():
                for o in oo:
                    hit = [r for r in ref.objs if objs[r[0]] is o]
                    check(len(hit) == 1 and hit[0][side] is not None and hit[0][side] == p.t,
                          label + ": point lists an object that is not registered there", p.t)
    # quarter durations as a function of time
    qd = part.quarter_durations()
    check(all(qd[i, 0] < qd[i + 1, 0] for i in range(len(qd) - 1)), label + ": quarter times not increasing")
    qmap = part.quarter_duration_map
    for t in ([qv] if qv is not None else []) + [c[0] for c in ref.q]:
        check(int(qmap(t)) == ref.in_force(t), label + ": quarter_duration_map differs from duration in force", t)
    # interval / class queries
    by_obj = lambda o: next(r[0] for r in ref.objs if objs[r[0]] is o)
    if full:
        combos = [(c, sub, mode) for c in ("Note", "GenericNote", "Measure", "TimedObject", "Rest")
                  for sub in (False, True) for mode in ("starting", "ending")]
    else:
        combos = [("Note", False, "starting"), ("Note", True, "starting"), ("GenericNote", True, "ending"),
                  ("TimedObject", True, "starting"), ("Measure", False, "ending")]
    ranges = [(None, None)]
    if qv is not None:
        ranges += [(qv, None), (None, qv), (qv, qv + 1), (qv, qv)]
    for (cname, sub, mode) in combos:
        classes = SUBCLS[cname] if sub else [cname]
        for (lo, hi) in ranges:
            got = list(part.iter_all(C[cname], start=lo, end=hi, include_subclasses=sub, mode=mode))
            exp = ref.query(classes, lo, hi, mode)
            check(len(got) == len(exp), label + ": iter_all returns wrong number of objects", cname, sub, mode)
            gk = [by_obj(o) for o in got]
            check(sorted(gk) == sorted(k for _, k in exp), label + ": iter_all returns wrong objects",
                  cname, sub, mode)
            tt = [(o.start.t if mode == "starting" else o.end.t) for o in got]
            check(all(tt[i] <= tt[i + 1] for i in range(len(tt) - 1)), label + ": iter_all not in time order")
    if sym.CONCRETE:
        # cls=None walks every subclass of `object` in the interpreter; CrossHair's lazy set
        # model recurses too deeply on that, so this query is only run on concrete replays.
        got = list(part.iter_all())
        check(sorted(by_obj(o) for o in got) == sorted(r[0] for r in ref.objs if r[2] is not None),
              label + ": iter_all() without class")
        got = list(part.iter_all(mode="ending"))
        check(sorted(by_obj(o) for o in got) == sorted(r[0] for r in ref.objs if r[3] is not None),
              label + ": iter_all(mode='ending') without class")
        for (lo, hi) in ranges[1:]:
            for mode, side in (("starting", 2), ("ending", 3)):
                got = list(part.iter_all(None, start=lo, end=hi, mode=mode))
                exp = ref.query(list(SUBCLS["TimedObject"]), lo, hi, mode)
                check(sorted(by_obj(o) for o in got) == sorted(k for _, k in exp),
                      label + ": iter_all(cls=None) on an interval", mode)
    # neighbour queries from every point
    for i, p in enumerate(pts):
        for (eq, sub) in (((False, False), (False, True), (True, False), (True, True)) if full
                          else ((False, True), (True, False))):
            classes = SUBCLS["Note"] if sub else ["Note"]
            nxt = [by_obj(o) for o in p.iter_next(C["Note"], eq=eq, include_subclasses=sub)]
            exp = [k for (t, k) in ref.query(classes, None, None, "starting") if (t >= p.t if eq else t > p.t)]
            check(sorted(nxt) == sorted(exp), label + ": iter_next", i, eq, sub)
            prv = [by_obj(o) for o in p.iter_prev(C["Note"], eq=eq, include_subclasses=sub)]
            exp = [k for (t, k) in ref.query(classes, None, None, "starting") if (t <= p.t if eq else t < p.t)]
            check(sorted(prv) == sorted(exp), label + ": iter_prev", i, eq, sub)
    return [int(p.t) if isinstance(p.t, int) else p.t for p in pts]


def _slots(script):
    slots = []
    for op in script:
        if op[0] == "add":
            cand = [s for s in (op[3], op[4]) if s is not None]
        else:
            cand = [op[1]] if op[0] in ("setq", "pt") else []
        for c in cand:
            if c not in slots:
                slots.append(c)
    return sorted(slots)


def make(pre, step, full=False, query=False):
    import inspect

    script = PRE[pre] + STEP[step]
    slots = _slots(script)
    pairs = [(op[3], op[4]) for op in script if op[0] == "add" and op[3] is not None and op[4] is not None]

    def h(**kw):
        import partitura.score as S

        T = [0] * 8
        for i in slots:
            T[i] = kw["t%d" % i]
            require(T[i] >= 0)
        qv = None
        if query:
            qv = kw["qv"]
            require(qv >= 0)
        for (a, b) in pairs:
            require(T[a] <= T[b])  # start <= end (equal allowed)
        part = S.Part("P", quarter_duration=1)
        ref = Ref(1)
        objs = {}
        for n, op in enumerate(script):
            label = "after op %d %r" % (n, op[:3])
            if op[0] == "add":
                _, key, cls, ss, es = op
                if key not in objs or all(r[0] != key for r in ref.objs):
                    objs[key] = _mk(cls, key)
                s = None if ss is None else T[ss]
                e = None if es is None else T[es]
                must_not_raise(part.add, objs[key], s, e, _what="Part.add")
                ref.add(key, cls, s, e)
            elif op[0] == "rm":
                _, key, which = op
                r = next(r for r in ref.objs if r[0] == key)
                must_not_raise(part.remove, objs[key], which, _what="Part.remove")
                ref.remove(key, which)
                if all(x is None for x in next(r for r in ref.objs if r[0] == key)[2:]):
                    ref.objs = [r for r in ref.objs if r[0] != key]
            elif op[0] == "setq":
                _, ts, q = op
                must_not_raise(part.set_quarter_duration, T[ts], q, _what="set_quarter_duration")
                ref.setq(T[ts], q)
            elif op[0] == "pt":
                tp = must_not_raise(part.get_or_add_point, T[op[1]], _what="get_or_add_point")
                check(tp.t == T[op[1]], "get_or_add_point returned a point at another time")
                if not any(T[op[1]] == u for u in ref.explicit):
                    ref.explicit.append(T[op[1]])
            if n >= len(PRE[pre]) or n == len(script) - 1:
                pts = check_state(part, ref, objs, qv, label, full)
        return {"points": pts, "q": [[a, b] for a, b in ref.q]}

    h.__signature__ = inspect.Signature(
        [inspect.Parameter(n, inspect.Parameter.KEYWORD_ONLY, annotation=int)
         for n in ["t%d" % i for i in slots] + (["qv"] if query else [])])
    return h


HARNESSES = [
    H(
        name="timeline_step",
        make=make,
        instances=_instances,
        models=["syminterp"],
        budget={"quick": 300.0, "thorough": 2400.0},
        functions=["Part.add", "Part.remove", "Part._add_point", "Part._remove_point", "Part._cleanup_point",
                   "Part.get_point", "Part.get_or_add_point", "Part.set_quarter_duration", "Part.quarter_durations",
                   "Part.quarter_duration_map", "Part.iter_all", "Part.first_point", "Part.last_point",
                   "TimePoint.add_starting_object", "TimePoint.add_ending_object", "TimePoint.iter_starting",
                   "TimePoint.iter_ending", "TimePoint.iter_prev", "TimePoint.iter_next", "ComparableMixin.*",
                   "generic.iter_subclasses", "generic.interp1d"],
        bounds="<=3 pre-registered objects + 1 new, <=3 quarter changes, scripts of <=5 operations; all times "
               "unbounded non-negative ints (symbolic), two symbolic query bounds; quarter values in {1,2,3}",
        outside="more than 4 live objects; objects registered twice on the same side; classes outside "
                "{Note, GraceNote, Rest, Measure, TimeSignature}",
    ),
]
