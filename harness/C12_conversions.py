"""C12 — pitch, key, duration and time-unit conversions are mutually consistent.

Engine A: the conversion functions are executed with symbolic ints; table
indices (step, mode spelling, unit) are symbolic selectors which the solver
enumerates by realisation, arithmetic values (alter, octave, fifths, tempo,
ticks) stay symbolic.  The oracles are written from twelve-tone / circle of
fifths arithmetic, not from partitura's tables.
"""
import inspect

from engine.hdef import H
from engine import sym
from engine.sym import Violation, check, must_not_raise, require

STEP_NAMES = "CDEFGAB"
NAT = [0, 2, 4, 5, 7, 9, 11]
# circle of fifths: tonic letter index (in F C G D A E B order) for fifths = -1..5 -> F..B
FIFTHS_LETTERS = ["F", "C", "G", "D", "A", "E", "B"]


def key_name_oracle(fifths, minor):
    """name of the key with `fifths` sharps(+)/flats(-): tonic moves by fifths from C (major) / A (minor)."""
    pos = fifths + (4 if minor else 1)  # index into the infinite line ...Fb Cb Gb Db Ab Eb Bb F C G D A E B F# C# ...
    letter = FIFTHS_LETTERS[pos % 7]
    acc = pos // 7
    return letter + ("#" * acc if acc > 0 else "b" * (-acc)) + ("m" if minor else "")


def _sig(fn, names, ann=int):
    fn.__signature__ = inspect.Signature(
        [inspect.Parameter(n, inspect.Parameter.KEYWORD_ONLY, annotation=(ann[n] if isinstance(ann, dict) else ann))
         for n in names])
    return fn


def make_pitch():
    def h(step_i: int, alter: int, octave: int, use_none: bool, lower: bool):
        import partitura.score as S
        from partitura.utils import music as M

        require(0 <= step_i < 7)
        require(-3 <= alter <= 3)
        require(-1 <= octave <= 9)
        step = STEP_NAMES[step_i]
        if lower:
            step = step.lower()
        a = None if (use_none and alter == 0) else alter
        got = must_not_raise(M.pitch_spelling_to_midi_pitch, step, a, octave, _what="pitch_spelling_to_midi_pitch")
        exp = 12 * (octave + 1) + NAT[step_i] + alter
        check(got == exp, "pitch_spelling_to_midi_pitch disagrees with twelve-tone arithmetic", step, alter, octave)
        n = S.Note(step, octave, a)
        check(n.midi_pitch == exp, "Note.midi_pitch")
        if -2 <= alter <= 2:
            sign = n.alter_sign
            check(sign == {0: "", 1: "#", 2: "x", -1: "b", -2: "bb"}[alter], "Note.alter_sign")
        check(M.step2pc(step.upper(), alter) == (NAT[step_i] + alter) % 12, "step2pc")
        f = must_not_raise(M.ensure_pitch_spelling_format, step, a, octave, _what="ensure_pitch_spelling_format")
        check(f[0] == step.upper() and f[2] == octave and (f[1] == a), "ensure_pitch_spelling_format changes the value")
        return [got]

    return h


def make_note_name(step_i):
    def h(alter: int, octave: int):
        from partitura.utils import music as M

        require(-3 <= alter <= 3)
        require(0 <= octave <= 11)
        # names are built with f-strings and parsed with a regex: the three numbers are enumerated
        alter, octave = sym.realize(alter), sym.realize(octave)
        step = STEP_NAMES[step_i]
        exp = 12 * (octave + 1) + NAT[step_i] + alter
        name = must_not_raise(M.pitch_spelling_to_note_name, step, alter, octave, _what="pitch_spelling_to_note_name")
        back = must_not_raise(M.note_name_to_pitch_spelling, name, _what="note_name_to_pitch_spelling")
        check(back == (step, alter, octave), "note name does not round-trip", name, back)
        check(M.note_name_to_midi_pitch(name) == exp, "note_name_to_midi_pitch", name)
        return name

    return h


def make_midi():
    def h(m: int):
        from partitura.utils import music as M

        require(0 <= m <= 127)
        step, alter, octave = must_not_raise(M.midi_pitch_to_pitch_spelling, m, _what="midi_pitch_to_pitch_spelling")
        check(step in STEP_NAMES and len(step) == 1, "step not a letter")
        check(alter in (0, 1), "default spelling uses naturals and sharps")
        check(12 * (octave + 1) + NAT[STEP_NAMES.index(step)] + alter == m, "spelling does not sound the MIDI pitch")
        check(M.pitch_spelling_to_midi_pitch(step, alter, octave) == m, "pitch conversions do not invert")
        return [step, alter, octave]

    return h


MODE_SPELLINGS = [("major", False), (None, False), ("none", False), (1, False), ("minor", True), (-1, True)]


def make_key():
    def h(fifths: int, mode_i: int):
        from partitura.utils import music as M
        import partitura.score as S

        require(-16 <= fifths <= 16)
        require(0 <= mode_i < len(MODE_SPELLINGS))
        mode, minor = MODE_SPELLINGS[mode_i]
        try:
            name = M.fifths_mode_to_key_name(fifths, mode)
        except Violation:
            raise
        except Exception:
            check(fifths < -7 or fifths > 7, "valid (fifths, mode) rejected", fifths, mode)
            return "rejected"
        check(-7 <= fifths <= 7, "fifths outside -7..7 mapped to a key instead of being rejected", fifths, name)
        check(name == key_name_oracle(fifths, minor), "wrong key name", fifths, mode, name)
        back = must_not_raise(M.key_name_to_fifths_mode, name, _what="key_name_to_fifths_mode")
        check(back == (fifths, "minor" if minor else "major"), "key name does not invert", name, back)
        ks = S.KeySignature(fifths, mode)
        check(ks.name == name, "KeySignature.name")
        check(M.key_mode_to_int(mode) == (-1 if minor else 1), "key_mode_to_int")
        check(M.key_int_to_mode(M.key_mode_to_int(mode)) == ("minor" if minor else "major"), "mode code does not decode")
        return name

    return h


def make_key_names():
    """every one of the 30 names (built from the oracle) parses to its (fifths, mode)."""

    def h(fifths: int, minor: bool):
        from partitura.utils import music as M

        require(-7 <= fifths <= 7)
        name = key_name_oracle(fifths, minor)
        got = must_not_raise(M.key_name_to_fifths_mode, name, _what="key_name_to_fifths_mode")
        check(got == (fifths, "minor" if minor else "major"), "key_name_to_fifths_mode", name, got)
        return list(got)

    return h


def make_bad_mode():
    def h(fifths: int, mode: str):
        from partitura.utils import music as M

        require(-7 <= fifths <= 7)
        require(len(mode) <= 5)
        require(mode not in ("major", "minor", "none"))
        try:
            name = M.fifths_mode_to_key_name(fifths, mode)
        except Violation:
            raise
        except Exception:
            name = None
        check(name is None, "unknown mode mapped to a key instead of being rejected", mode, name)
        try:
            c = M.key_mode_to_int(mode)
        except Exception:
            c = None
        check(c is None, "unknown mode encoded instead of being rejected", mode, c)
        return 0

    return h


UNITS = {"long": (16, 1), "breve": (8, 1), "whole": (4, 1), "half": (2, 1), "h": (2, 1), "quarter": (1, 1),
         "q": (1, 1), "eighth": (1, 2), "e": (1, 2), "16th": (1, 4), "32nd": (1, 8), "64th": (1, 16),
         "128th": (1, 32), "256th": (1, 64)}
UNIT_NAMES = sorted(UNITS)
DOTS = [(1, 1), (3, 2), (7, 4), (15, 8)]


def make_tempo():
    def h(unit_i: int, dots: int, tempo: int):
        from partitura.utils import music as M
        import partitura.score as S

        require(0 <= unit_i < len(UNIT_NAMES))
        require(0 <= dots <= 3)
        require(1 <= tempo <= 1000)
        unit = UNIT_NAMES[unit_i]
        n, d = UNITS[unit]
        dn, dd = DOTS[dots]
        got = must_not_raise(M.to_quarter_tempo, unit + "." * dots, tempo, _what="to_quarter_tempo")
        check(got * (d * dd) == tempo * n * dn, "to_quarter_tempo value", unit, dots, tempo, got)
        return got

    return h


def make_symdur():
    def h(unit_i: int, dots: int, divs: int, actual: int, normal: int):
        from partitura.utils import music as M

        require(0 <= unit_i < len(UNIT_NAMES))
        require(0 <= dots <= 3)
        require(1 <= divs <= 960)
        require(1 <= actual <= 15)
        require(1 <= normal <= 15)
        unit = UNIT_NAMES[unit_i]
        n, d = UNITS[unit]
        dn, dd = DOTS[dots]
        sd = {"type": unit, "dots": dots}
        if actual != normal:
            sd["actual_notes"] = actual
            sd["normal_notes"] = normal
        got = must_not_raise(M.symbolic_to_numeric_duration, sd, divs, _what="symbolic_to_numeric_duration")
        # got == divs * n/d * dn/dd * normal/actual   (reals; tolerance for the float constants)
        lhs = got * (d * dd * actual)
        rhs = divs * n * dn * normal
        err = lhs - rhs
        err = err if err >= 0 else -err
        check(err <= 1e-9 * (1 + rhs), "symbolic_to_numeric_duration value", sd, divs, got)
        return 0

    return h


def make_interval():
    def h(number: int, q_i: int, down: bool):
        import partitura.score as S

        require(1 <= number <= 7)
        perfect = number in (1, 4, 5)
        quals = ["dd", "d", "P", "A", "AA"] if perfect else ["dd", "d", "m", "M", "A", "AA"]
        require(0 <= q_i < len(quals))
        q = quals[q_i]
        iv = must_not_raise(S.Interval, number, q, "down" if down else "up", _what="Interval()")
        base = [0, 2, 4, 5, 7, 9, 11][number - 1]
        off = {"dd": -2, "d": -1, "P": 0, "A": 1, "AA": 2}[q] if perfect else \
            {"dd": -3, "d": -2, "m": -1, "M": 0, "A": 1, "AA": 2}[q]
        check(iv.semitones == base + off, "Interval.semitones", number, q, iv.semitones)
        return iv.semitones

    return h


def make_bad_interval():
    def h(number: int, q_i: int):
        import partitura.score as S

        require(1 <= number <= 7)
        require(0 <= q_i < 2)
        perfect = number in (1, 4, 5)
        q = (["m", "M"] if perfect else ["P", "P"])[q_i]
        try:
            S.Interval(number, q)
        except AssertionError:
            return 0
        check(False, "invalid interval quality accepted", number, q)

    return h


def make_tuplet(amax=12):
    def h(actual: int, normal: int, at_i: int, nt_i: int):
        import partitura.score as S
        from fractions import Fraction

        require(1 <= actual <= amax)
        require(1 <= normal <= amax)
        types = ["half", "quarter", "eighth", "16th", "32nd"]
        require(0 <= at_i < 5)
        require(0 <= nt_i < 5)
        a, n = sym.realize(actual), sym.realize(normal)  # Fraction() needs concrete ints: enumerated
        at_i, nt_i = sym.realize(at_i), sym.realize(nt_i)
        t = S.Tuplet(actual_notes=a, normal_notes=n, actual_type=types[at_i], normal_type=types[nt_i])
        got = must_not_raise(lambda: t.duration_multiplier, _what="Tuplet.duration_multiplier")
        exp = Fraction(n, a) * Fraction(2 ** (5 - nt_i)) / Fraction(2 ** (5 - at_i))
        check(got == exp, "Tuplet.duration_multiplier", a, n, types[at_i], types[nt_i], got)
        return [got.numerator, got.denominator]

    return h


def make_clef():
    def h(i: int):
        from partitura.utils import music as M

        signs = ["G", "F", "C", "percussion", "TAB", "jianpu", "none"]
        require(0 <= i < len(signs))
        c = must_not_raise(M.clef_sign_to_int, signs[i], _what="clef_sign_to_int")
        check(M.clef_int_to_sign(c) == signs[i], "clef code does not decode")
        for j in range(len(signs)):
            if j != i:
                check(M.clef_sign_to_int(signs[j]) != c, "two clef signs share a code")
        return c

    return h


PPQ_MPQ = [(480, 500000), (96, 600000), (1000, 250000), (384, 1000000), (960, 416666)]


def make_ticks(ppq, mpq):
    def h(tick: int, ms: int):
        from partitura.utils import music as M

        require(0 <= tick <= 2 ** 24)
        require(-10 ** 6 <= ms <= 10 ** 7)
        # ticks -> seconds is the exact quotient
        s = must_not_raise(M.midi_ticks_to_seconds, tick, mpq, ppq, _what="midi_ticks_to_seconds")
        err = s * (10 ** 6 * ppq) - mpq * tick
        err = err if err >= 0 else -err
        check(err <= 1e-9 * (1 + mpq * tick), "midi_ticks_to_seconds value", tick, s)
        # seconds -> ticks is round(1e6*ppq*s/mpq): check |ticks*mpq - 1e6*ppq*s| <= mpq/2 for s = ms/1000
        sec = ms / 1000
        t = must_not_raise(M.seconds_to_midi_ticks, sec, mpq, ppq, _what="seconds_to_midi_ticks")
        d = t * mpq * 1000 - 10 ** 6 * ppq * ms
        d = d if d >= 0 else -d
        check(2 * d <= mpq * 1000 * (1 + 1e-9), "seconds_to_midi_ticks is not the nearest tick", ms, t)
        # and back
        t2 = must_not_raise(M.seconds_to_midi_ticks, s, mpq, ppq, _what="seconds_to_midi_ticks")
        check(t2 == tick, "ticks -> seconds -> ticks does not return the tick", tick, t2)
        return [t, t2]

    return h


def make_ticks_array(ppq, mpq):
    """array branch: executed on concrete vectors with the real numpy (validation/replay)."""

    def h(a: int, b: int):
        import numpy as np
        from partitura.utils import music as M

        require(0 <= a <= 10 ** 6)
        require(0 <= b <= 10 ** 6)
        from engine import sym

        if sym._ACTIVE["symbolic"]:
            return 0  # numeric ndarray kernels are outside the symbolic encoding
        secs = np.array([a / 1000.0, b / 1000.0])
        t = must_not_raise(M.seconds_to_midi_ticks, secs, mpq, ppq, _what="seconds_to_midi_ticks(ndarray)")
        check(isinstance(t, np.ndarray) and t.dtype.kind == "i", "array result is not an int array")
        for x, y in zip(t.tolist(), [a, b]):
            check(x == M.seconds_to_midi_ticks(y / 1000.0, mpq, ppq), "array and scalar conversion disagree")
        back = M.midi_ticks_to_seconds(t, mpq, ppq)
        check(np.allclose(back, t * mpq / (1e6 * ppq)), "midi_ticks_to_seconds(ndarray)")
        return t.tolist()

    return h


def _one(tier):
    return [{}]


def _pm(tier):
    return [{"ppq": p, "mpq": m} for p, m in (PPQ_MPQ[:2] if tier == "quick" else PPQ_MPQ)]


FUNCS = ["pitch_spelling_to_midi_pitch", "midi_pitch_to_pitch_spelling", "note_name_to_pitch_spelling",
         "note_name_to_midi_pitch", "pitch_spelling_to_note_name", "ensure_pitch_spelling_format", "step2pc",
         "Note.midi_pitch", "Note.alter_sign", "fifths_mode_to_key_name", "key_name_to_fifths_mode",
         "key_mode_to_int", "key_int_to_mode", "KeySignature.name", "to_quarter_tempo",
         "symbolic_to_numeric_duration", "Interval.validate", "Interval.semitones", "Tuplet.duration_multiplier",
         "clef_sign_to_int", "clef_int_to_sign", "seconds_to_midi_ticks", "midi_ticks_to_seconds"]

HARNESSES = [
    H("pitch", make_pitch, _one, functions=FUNCS, budget={"quick": 120, "thorough": 600},
      bounds="7 steps x alter -3..3 (and None) x octave -1..9 (symbolic), upper/lower-case steps",
      outside="frequency conversions (2**x, log2): not encodable"),
    H("note_name", make_note_name, lambda tier: [{"step_i": i} for i in range(7)], budget={"quick": 100, "thorough": 600},
      bounds="7 steps x alter -3..3 x octave 0..11 (all enumerated by realisation: names are built with f-strings)"),
    H("midi", make_midi, _one, budget={"quick": 60, "thorough": 300}, bounds="all MIDI pitches 0..127"),
    H("key", make_key, _one, budget={"quick": 120, "thorough": 600},
      bounds="fifths -16..16 x six accepted mode spellings"),
    H("key_names", make_key_names, _one, budget={"quick": 60, "thorough": 300}, bounds="30 key names"),
    H("bad_mode", make_bad_mode, _one, budget={"quick": 90, "thorough": 300},
      bounds="arbitrary mode strings up to 5 characters", core=False),
    H("tempo", make_tempo, _one, budget={"quick": 90, "thorough": 300},
      bounds="14 unit strings x 0..3 dots x tempo 1..1000"),
    H("symdur", make_symdur, _one, budget={"quick": 90, "thorough": 300},
      bounds="14 types x dots 0..3 x divs 1..960 x tuplet ratios up to 15:15"),
    H("interval", make_interval, _one, budget={"quick": 60, "thorough": 300}, bounds="all 39 interval classes x direction"),
    H("bad_interval", make_bad_interval, _one, budget={"quick": 30, "thorough": 100}, bounds="m/M on perfect, P on imperfect"),
    H("tuplet", make_tuplet, lambda tier: [{"amax": 4 if tier == "quick" else 12}], budget={"quick": 120, "thorough": 600},
      bounds="actual/normal 1..12 (enumerated by realisation), 5 note types each"),
    H("clef", make_clef, _one, budget={"quick": 30, "thorough": 100}, bounds="7 clef signs"),
    H("ticks", make_ticks, _pm, models=["symnp:partitura.utils.music"], budget={"quick": 90, "thorough": 300},
      bounds="ticks <= 2^24, times n/1000 s with -10^6 <= n <= 10^7, listed ppq/mpq pairs; reals (rounding ties and IEEE "
             "rounding are decided by engine B in C06/C08)"),
    H("ticks_array", make_ticks_array, _pm, budget={"quick": 20, "thorough": 60},
      vectors=[{"a": 0, "b": 1}, {"a": 1500, "b": 333}, {"a": 999999, "b": 12345}],
      bounds="ndarray branch on concrete vectors only (real numpy)", core=False),
]
