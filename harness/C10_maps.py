"""C10 — signature, clef and measure maps return what is in force at the queried time.

Engine A on Part.time_signature_map / key_signature_map / clef_map /
measure_map / measure_number_map / metrical_position_map with symbolic start
times, symbolic fifths and a symbolic query.  Oracle: "latest element starting
at or before t, the first one before that, documented default when none";
measure containing t, pickup first measure extended backwards to a full bar.
"""
import inspect

from engine.hdef import H, exclude_known
from engine.sym import check, must_not_raise, require

MODES = {"major": 1, "minor": -1, None: 1}
CLEF_INT = {"G": 0, "F": 1, "C": 2, "percussion": 3, "TAB": 4, "jianpu": 5, "none": 6}
MUSICAL = {6: 2, 9: 3, 12: 4}


def _tolist(a):
    return a.tolist() if hasattr(a, "tolist") else list(a)


def latest(elems, t):
    """elems: [(start, value)] ; value of the latest start <= t, else of the earliest element."""
    best = None
    for (s, v) in elems:
        if s <= t and (best is None or s >= best[0]):
            best = (s, v)
    if best is None:
        first = elems[0]
        for e in elems:
            if e[0] < first[0]:
                first = e
        return first[1]
    return best[1]


def make_sig(n_ts, n_ks, clefs):
    """clefs: list of (staff, sign, line, octave_change) ; their start times are symbolic."""
    TS = [(4, 4), (6, 8), (3, 2)][:n_ts]
    KS_MODES = ["major", "minor", None][:n_ks]
    names = ["t_first", "t_last", "t"] + ["tts%d" % i for i in range(n_ts)] + \
            ["tks%d" % i for i in range(n_ks)] + ["f%d" % i for i in range(n_ks)] + ["tc%d" % i for i in range(len(clefs))]

    def h(**kw):
        import partitura.score as S

        t_first, t_last, t = kw["t_first"], kw["t_last"], kw["t"]
        require(0 <= t_first < t_last)
        require(t_first <= t <= t_last)
        part = S.Part("P", quarter_duration=4)
        n0 = S.Note("C", 4, id="n0", voice=1, staff=max([c[0] for c in clefs] + [1]))
        part.add(n0, t_first, t_last)
        ts_el, ks_el, cl_el = [], [], []
        for i, (b, bt) in enumerate(TS):
            tt = kw["tts%d" % i]
            require(t_first <= tt <= t_last)
            for (s, _) in ts_el:
                require(s != tt)  # two signatures of one kind at the same time: no defined winner
            part.add(S.TimeSignature(b, bt), tt)
            ts_el.append((tt, (b, bt, MUSICAL.get(b, b))))
        for i, mode in enumerate(KS_MODES):
            tt, f = kw["tks%d" % i], kw["f%d" % i]
            require(t_first <= tt <= t_last)
            require(-7 <= f <= 7)
            for (s, _) in ks_el:
                require(s != tt)
            part.add(S.KeySignature(f, mode), tt)
            ks_el.append((tt, (f, MODES[mode])))
        for i, (staff, sign, line, oc) in enumerate(clefs):
            tt = kw["tc%d" % i]
            require(t_first <= tt <= t_last)
            for (s, v) in cl_el:
                if v[0] == staff:
                    require(s != tt)
            part.add(S.Clef(staff, sign, line, oc), tt)
            cl_el.append((tt, (staff, CLEF_INT[sign], line, oc if oc is not None else 0)))
        obs = []
        # --- time signature
        f = part.time_signature_map
        got = _tolist(must_not_raise(f, t, _what="time_signature_map"))
        exp = latest(ts_el, t) if ts_el else (4, 4, 4)
        check([int(x) for x in got] == list(exp), "time_signature_map", t, got, exp)
        arr = must_not_raise(f, [t, t_first], _what="time_signature_map(array)")
        check([int(x) for x in _tolist(arr[0])] == list(exp), "time_signature_map: array and scalar queries disagree")
        exp1 = latest(ts_el, t_first) if ts_el else (4, 4, 4)
        check([int(x) for x in _tolist(arr[1])] == list(exp1), "time_signature_map before the first signature", t_first)
        obs.append([int(x) for x in got])
        # --- key signature
        f = part.key_signature_map
        got = _tolist(must_not_raise(f, t, _what="key_signature_map"))
        exp = latest(ks_el, t) if ks_el else (0, 1)
        check([int(x) for x in got] == list(exp), "key_signature_map", t, got, exp)
        arr = must_not_raise(f, [t_first, t], _what="key_signature_map(array)")
        check([int(x) for x in _tolist(arr[1])] == list(exp), "key_signature_map: array and scalar queries disagree")
        obs.append([int(x) for x in got])
        # --- clefs
        n_staves = max([c[0] for c in clefs] + [1])
        f = part.clef_map
        got = _tolist(must_not_raise(f, t, _what="clef_map"))
        check(len(got) == n_staves, "clef_map: one row per staff", len(got), n_staves)
        for s in range(1, n_staves + 1):
            mine = [(tt, v) for (tt, v) in cl_el if v[0] == s]
            exp = latest(mine, t) if mine else (s, CLEF_INT["none"], 0, 0)
            check([int(x) for x in got[s - 1]] == list(exp), "clef_map", s, t, got[s - 1], exp)
        obs.append([[int(x) for x in r] for r in got])
        return obs

    h.__signature__ = inspect.Signature([inspect.Parameter(n, inspect.Parameter.KEYWORD_ONLY, annotation=int) for n in names])
    return h


def make_sig_history():
    """query, edit the part, query again: the maps must reflect the part as it is now (no stale state)."""

    def h(t1: int, t2: int, t: int, f1: int, f2: int):
        import partitura.score as S

        require(0 < t1 < t2 <= 1000)
        require(0 <= t <= 1000)
        require(-7 <= f1 <= 7)
        require(-7 <= f2 <= 7)
        part = S.Part("P", quarter_duration=4)
        part.add(S.Note("C", 4, id="n0", voice=1, staff=1), 0, 1000)
        ts0, ts1, ts2 = S.TimeSignature(4, 4), S.TimeSignature(3, 4), S.TimeSignature(6, 8)
        ks1, ks2 = S.KeySignature(f1, "major"), S.KeySignature(f2, "minor")
        part.add(ts0, 0)
        part.add(ts1, t1)
        part.add(ts2, t2)
        part.add(ks1, 0)
        part.add(ks2, t2)
        elems = [(0, (4, 4, 4)), (t1, (3, 4, 3)), (t2, (6, 8, 2))]
        got = [int(x) for x in _tolist(must_not_raise(part.time_signature_map, t, _what="time_signature_map"))]
        check(got == list(latest(elems, t)), "time_signature_map (before editing)", t, got)
        part.remove(ts1)  # the 3/4 signature is taken out again
        elems = [(0, (4, 4, 4)), (t2, (6, 8, 2))]
        got = [int(x) for x in _tolist(must_not_raise(part.time_signature_map, t, _what="time_signature_map"))]
        check(got == list(latest(elems, t)), "time_signature_map still reports a removed time signature", t, got)
        k0 = [int(x) for x in _tolist(part.key_signature_map(t))]
        part.remove(ks2)
        k1 = [int(x) for x in _tolist(must_not_raise(part.key_signature_map, t, _what="key_signature_map"))]
        check(k1 == [f1, 1], "key_signature_map still reports a removed key signature", t, k1)
        part.add(S.TimeSignature(2, 2), t1)
        elems = [(0, (4, 4, 4)), (t1, (2, 2, 2)), (t2, (6, 8, 2))]
        got = [int(x) for x in _tolist(part.time_signature_map(t))]
        check(got == list(latest(elems, t)), "time_signature_map after adding a signature", t, got)
        return [got, k0, k1]

    return h


def make_measures(n_meas, beats, beat_type, q):
    """n_meas contiguous measures with symbolic barlines; first one may be a pickup."""
    names = ["b%d" % i for i in range(1, n_meas + 1)] + ["t", "num0"]
    full4 = beats * 4 * q
    assert full4 % beat_type == 0
    full = full4 // beat_type

    def h(**kw):
        import partitura.score as S

        b = [0] + [kw["b%d" % i] for i in range(1, n_meas + 1)]
        for i in range(1, len(b)):
            require(b[i] > b[i - 1])
            require(b[i] <= 10 ** 6)
        t, num0 = kw["t"], kw["num0"]
        require(0 <= t < b[-1])
        require(0 <= num0 <= 1)
        exclude_known("KF-C10-pickup-short-part", b[-1] * beat_type < 4 * q)
        part = S.Part("P", quarter_duration=q)
        part.add(S.TimeSignature(beats, beat_type), 0)
        part.add(S.Note("C", 4, id="n0"), 0, b[-1])
        for i in range(n_meas):
            part.add(S.Measure(number=num0 + i), b[i], b[i + 1])
        # oracle
        starts = list(b[:-1])
        ends = list(b[1:])
        pickup = (ends[0] - starts[0]) < full
        if pickup:
            starts[0] = ends[0] - full  # treated as ending a full bar
        k = 0
        for i in range(n_meas):
            if b[i] <= t:
                k = i
        mm = _tolist(must_not_raise(part.measure_map, t, _what="measure_map"))
        check([int(x) for x in mm] == [starts[k], ends[k]], "measure_map extent", t, mm, [starts[k], ends[k]])
        mn = must_not_raise(part.measure_number_map, t, _what="measure_number_map")
        check(int(mn) == num0 + k, "measure_number_map", t, mn)
        arr = must_not_raise(part.measure_map, [t, 0], _what="measure_map(array)")
        check([int(x) for x in _tolist(arr[0])] == [starts[k], ends[k]], "measure_map: array and scalar disagree")
        check([int(x) for x in _tolist(arr[1])] == [starts[0], ends[0]], "measure_map at the first position")
        mp = must_not_raise(part.metrical_position_map, t, _what="metrical_position_map")
        pos, length = int(mp[0]), int(mp[1])
        if n_meas >= 2:
            check(pos == t - starts[k], "metrical position is not the distance from the measure start", t, pos, starts[k])
            check(length == ends[k] - starts[k], "measure length", t, length)
            mpa = must_not_raise(part.metrical_position_map, [t], _what="metrical_position_map(array)")
            check([int(x) for x in _tolist(mpa[0])] == [pos, length], "metrical_position_map: array and scalar disagree")
        else:
            check(pos == 0 and length == 0, "single measure: documented metrical position 0")
        return [[int(x) for x in mm], int(mn), pos, length]

    h.__signature__ = inspect.Signature([inspect.Parameter(n, inspect.Parameter.KEYWORD_ONLY, annotation=int) for n in names])
    return h


def _sig_inst(tier):
    out = [
        {"n_ts": 1, "n_ks": 1, "clefs": [[1, "G", 2, 0]]},
        {"n_ts": 2, "n_ks": 0, "clefs": []},
        {"n_ts": 0, "n_ks": 1, "clefs": [[1, "G", 2, 0], [2, "F", 4, 0]]},
        {"n_ts": 0, "n_ks": 2, "clefs": [[2, "F", 4, None]]},  # staff 1 without clef
        {"n_ts": 0, "n_ks": 0, "clefs": [[1, "C", 3, 0], [1, "G", 2, -1]]},
    ]
    if tier != "quick":
        out += [{"n_ts": 3, "n_ks": 0, "clefs": []}, {"n_ts": 0, "n_ks": 3, "clefs": []},
                {"n_ts": 1, "n_ks": 2, "clefs": [[1, "G", 2, 0], [2, "F", 4, 0], [2, "C", 3, 0]]},
                {"n_ts": 2, "n_ks": 2, "clefs": [[1, "percussion", 2, 0]]}]
    return out


def _meas_inst(tier):
    out = [{"n_meas": 1, "beats": 4, "beat_type": 4, "q": 2}, {"n_meas": 2, "beats": 3, "beat_type": 4, "q": 2},
           {"n_meas": 3, "beats": 6, "beat_type": 8, "q": 4}]
    if tier != "quick":
        out += [{"n_meas": 2, "beats": 4, "beat_type": 4, "q": 1}, {"n_meas": 3, "beats": 2, "beat_type": 2, "q": 3},
                {"n_meas": 4, "beats": 3, "beat_type": 8, "q": 2}]
    return out


MODELS = ["syminterp", "symdict", "symnp:partitura.score,partitura.utils.generic", "symppoly"]
HARNESSES = [
    H("signatures", make_sig, _sig_inst, models=MODELS, budget={"quick": 150, "thorough": 900},
      functions=["Part.time_signature_map", "Part.key_signature_map", "Part.clef_map", "key_mode_to_int",
                 "clef_sign_to_int", "generic.interp1d", "Part.number_of_staves"],
      bounds="<=3 time signatures, <=3 key signatures (symbolic fifths -7..7, modes major/minor/None), <=3 clefs on "
             "1-2 staves incl. a staff without clef; all start times and the query symbolic in [first, last point]; "
             "elements of one kind never at the same time",
      outside="more elements; two signatures of a kind at one time"),
    H("sig_history", make_sig_history, lambda tier: [{}], models=MODELS, budget={"quick": 150, "thorough": 600},
      functions=["Part.time_signature_map", "Part.key_signature_map", "Part.add", "Part.remove"],
      bounds="three time signatures and two key signatures, two symbolic positions and a symbolic query; query - remove - "
             "query - add - query history"),
    H("measures", make_measures, _meas_inst, models=MODELS, budget={"quick": 150, "thorough": 900},
      functions=["Part.measure_map", "Part.measure_number_map", "Part.metrical_position_map", "Part.beat_map",
                 "Part.inv_beat_map", "Part.time_signature_map", "generic.interp1d", "scipy PPoly (model)"],
      bounds="1-4 contiguous measures from time 0 with symbolic barlines <= 10^6 (first measure pickup / full / "
             "overlong decided symbolically), one time signature, listed divisions; symbolic query inside the part",
      outside="gaps between measures, parts not starting at 0 (see KF-C02), time-signature changes"),
]
