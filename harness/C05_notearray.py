"""C05 — the note array is a faithful table of the score.

Engine A on note_array_from_part / note_array_from_note_list /
note_array_from_part_list / rest_array_from_part with symbolic onsets,
durations, pitches and voices.  Oracle written from the statement: one row per
sounding note (tie chain merged, grace notes with zero duration), values equal
to the timeline and to exact quarter/beat formulas, rows ordered by onset then
pitch, lcm rescaling across parts.
"""
import inspect
from math import gcd

from engine.hdef import H
from engine.sym import check, must_not_raise, require

NAT = [0, 2, 4, 5, 7, 9, 11]
STEPS = "CDEFGAB"


def close(a, num, den, tol=1e-6):
    e = a * den - num
    e = e if e >= 0 else -e
    n = num if num >= 0 else -num
    return e <= tol * (den + n)


def make_part_array(q, ts, opts, pin_step=False):
    """one part: tie chain a1~a2 (symbolic split), grace note g before b, note c without voice/staff."""
    beats, beat_type = ts
    inc_spell, inc_ks, inc_ts, inc_grace, inc_staff, inc_divs, inc_metpos = opts
    names = ["on_a", "d_a1", "d_a2", "on_b", "d_b", "on_c", "d_c", "s_a", "s_b", "s_c", "v_a", "v_b", "fifths"]

    def h(**kw):
        import partitura.score as S
        from partitura.utils import music as M

        on_a, d_a1, d_a2, on_b, d_b, on_c, d_c = (kw[k] for k in ("on_a", "d_a1", "d_a2", "on_b", "d_b", "on_c", "d_c"))
        s_a, s_b, s_c, v_a, v_b, fifths = (kw[k] for k in ("s_a", "s_b", "s_c", "v_a", "v_b", "fifths"))
        bar = beats * 4 * q // beat_type
        for x in (on_a, on_b, on_c):
            require(0 <= x)
        for d in (d_a1, d_a2, d_b, d_c):
            require(1 <= d)
        require(on_a + d_a1 + d_a2 <= 2 * bar)
        require(on_b + d_b <= 2 * bar)
        require(on_c + d_c <= 2 * bar)
        # fewer free variables (path explosion): the tie chain's second note, note b's length, note c's
        # position and two steps are pinned; what stays symbolic: chain onset/split, b's onset, c's step,
        # a's voice, the key signature
        require(d_a2 == 1)
        require(d_b == 2)
        require(on_b == on_a)  # b (and its grace note) form a chord with the tie chain: no extra time points
        require(on_c == 0)
        require(d_c == bar)    # c fills the first measure: no extra time points
        require(s_a == 1)
        require(s_b == 4)
        require(s_c == 5 if pin_step else (0 <= s_c <= 6))
        require(0 <= v_a <= 3)  # 0 is a voice the score can state (MIDI import without voices), None is "no voice"
        require(v_b == 2)
        require(-7 <= fifths <= 7)
        part = S.Part("P", quarter_duration=q)
        part.add(S.TimeSignature(beats, beat_type), 0)
        part.add(S.KeySignature(fifths, "minor"), 0)
        part.add(S.Measure(number=1), 0, bar)
        part.add(S.Measure(number=2), bar, 2 * bar)
        a1 = S.Note(STEPS[s_a], 4, 1, id="a1", voice=v_a, staff=1)
        a2 = S.Note(STEPS[s_a], 4, 1, id="a2", voice=v_a, staff=1)
        a1.tie_next = a2
        a2.tie_prev = a1
        g = S.GraceNote("acciaccatura", STEPS[s_b], 5, -1, id="g", voice=v_b, staff=2)
        b = S.Note(STEPS[s_b], 3, None, id="b", voice=v_b, staff=2)
        c = S.Note(STEPS[s_c], 5, 0, id="c", voice=None, staff=None)
        part.add(a1, on_a, on_a + d_a1)
        part.add(a2, on_a + d_a1, on_a + d_a1 + d_a2)
        part.add(g, on_b, on_b)
        part.add(b, on_b, on_b + d_b)
        part.add(c, on_c, on_c + d_c)
        r = S.Rest(id="r", voice=1, staff=1)
        part.add(r, bar, 2 * bar)
        na = must_not_raise(M.note_array_from_part, part, include_pitch_spelling=inc_spell,
                            include_key_signature=inc_ks, include_time_signature=inc_ts,
                            include_metrical_position=inc_metpos, include_grace_notes=inc_grace,
                            include_staff=inc_staff, include_divs_per_quarter=inc_divs, _what="note_array_from_part")
        exp = [
            dict(id="a1", on=on_a, dur=d_a1 + d_a2, pitch=60 + NAT[s_a] + 1, voice=v_a, step=STEPS[s_a], alter=1, octave=4, staff=1, grace=False),
            dict(id="g", on=on_b, dur=0, pitch=72 + NAT[s_b] - 1, voice=v_b, step=STEPS[s_b], alter=-1, octave=5, staff=2, grace=True),
            dict(id="b", on=on_b, dur=d_b, pitch=48 + NAT[s_b], voice=v_b, step=STEPS[s_b], alter=0, octave=3, staff=2, grace=False),
            dict(id="c", on=on_c, dur=d_c, pitch=72 + NAT[s_c], voice=None, step=STEPS[s_c], alter=0, octave=5, staff=0, grace=False),
        ]
        vmax = v_a if v_a > v_b else v_b
        check(len(na) == len(exp), "one row per sounding note (tie chain = one row, grace notes kept)", len(na))
        rows = {str(r_["id"]): r_ for r_ in na}
        check(sorted(rows) == ["a1", "b", "c", "g"], "ids of the rows", sorted(rows))
        for e in exp:
            r_ = rows[e["id"]]
            check(r_["onset_div"] == e["on"], "onset_div", e["id"])
            check(r_["duration_div"] == e["dur"], "duration_div (tie chain summed, grace = 0)", e["id"], r_["duration_div"], e["dur"])
            check(r_["pitch"] == e["pitch"], "pitch", e["id"], r_["pitch"], e["pitch"])
            check(r_["voice"] == (e["voice"] if e["voice"] is not None else vmax + 1), "voice", e["id"], r_["voice"])
            check(close(r_["onset_quarter"], e["on"], q), "onset_quarter", e["id"])
            check(close(r_["duration_quarter"], e["dur"], q), "duration_quarter", e["id"])
            check(close(r_["onset_beat"], e["on"] * beat_type, 4 * q), "onset_beat", e["id"])
            check(close(r_["duration_beat"], e["dur"] * beat_type, 4 * q), "duration_beat", e["id"])
            if inc_spell:
                check(str(r_["step"]) == e["step"] and r_["alter"] == e["alter"] and r_["octave"] == e["octave"], "spelling columns", e["id"])
            if inc_ks:
                check(r_["ks_fifths"] == fifths and r_["ks_mode"] == -1, "key signature columns", e["id"])
            if inc_ts:
                check(r_["ts_beats"] == beats and r_["ts_beat_type"] == beat_type, "time signature columns", e["id"])
            if inc_grace:
                check(bool(r_["is_grace"]) == e["grace"], "is_grace", e["id"])
                check(str(r_["grace_type"]) == ("acciaccatura" if e["grace"] else ""), "grace_type", e["id"])
            if inc_staff:
                check(r_["staff"] == e["staff"], "staff column", e["id"], r_["staff"])
            if inc_divs:
                check(r_["divs_pq"] == q, "divs_pq", e["id"])
            if inc_metpos:
                rel = e["on"] if e["on"] < bar else e["on"] - bar
                check(r_["rel_onset_div"] == rel and r_["tot_measure_div"] == bar, "metrical position columns", e["id"],
                      r_["rel_onset_div"], rel)
                check(r_["is_downbeat"] == (1 if rel == 0 else 0), "is_downbeat", e["id"])
        seq = [(r_["onset_div"], r_["pitch"]) for r_ in na]
        for x, y in zip(seq[:-1], seq[1:]):
            check(x[0] < y[0] or (x[0] == y[0] and x[1] <= y[1]), "rows ordered by onset, then pitch", seq)
        # rests obey the same rules
        ra = must_not_raise(M.rest_array_from_part, part, _what="rest_array_from_part")
        check(len(ra) == 1 and ra[0]["onset_div"] == bar and ra[0]["duration_div"] == bar, "rest array row")
        check(close(ra[0]["onset_quarter"], bar, q), "rest onset_quarter")
        return [[int(x[0]), int(x[1])] for x in seq]

    h.__signature__ = inspect.Signature([inspect.Parameter(n, inspect.Parameter.KEYWORD_ONLY, annotation=int) for n in names])
    return h


def make_part_list(qs, unique, with_empty=False):
    names = []
    for i in range(len(qs)):
        names += ["on%d" % i, "du%d" % i, "p%d" % i]

    def h(**kw):
        import partitura.score as S
        from partitura.utils import music as M

        L = 1
        for q in qs:
            L = L * q // gcd(L, q)
        parts, exp = [], []
        if with_empty:
            e0 = S.Part("E", quarter_duration=5)
            e0.add(S.TimeSignature(4, 4), 0)
            parts.append(e0)
        for i, q in enumerate(qs):
            on, du, p = kw["on%d" % i], kw["du%d" % i], kw["p%d" % i]
            require(0 <= on <= 10 ** 4)
            require(1 <= du <= 10 ** 4)
            require(0 <= p <= 6)
            if i > 0:
                require(du == 1)
                require(p == 4)
            part = S.Part("P%d" % i, quarter_duration=q)
            part.add(S.TimeSignature(4, 4), 0)
            part.add(S.Note(STEPS[p], 4, id="n", voice=1), on, on + du)
            parts.append(part)
            k = len(parts) - 1
            exp.append((("P%02d_n" % k) if unique else "n", on * (L // q), du * (L // q), 60 + NAT[p], (on, q)))
        na = must_not_raise(M.note_array_from_part_list, parts, unique_id_per_part=unique, _what="note_array_from_part_list")
        check(len(na) == len(exp), "union of the part arrays", len(na))
        pool = list(na)
        for (nid, on, du, pitch, (t, q)) in exp:
            hits = [r_ for r_ in pool if str(r_["id"]) == nid and r_["pitch"] == pitch and r_["onset_div"] == on]
            check(len(hits) >= 1, "row not found with id / pitch / onset rescaled to the lcm of the divisions", nid, on,
                  [(str(r_["id"]), r_["onset_div"]) for r_ in na])
            r_ = hits[0]
            pool = [x for x in pool if x is not r_]
            check(r_["duration_div"] == du, "duration rescaled to the lcm", nid, r_["duration_div"], du)
            check(r_["divs_pq"] == L, "divs_pq is the lcm", r_["divs_pq"], L)
            check(close(r_["onset_quarter"], t, q), "onset_quarter unchanged by rescaling", nid)
        seq = [(r_["onset_div"], r_["pitch"]) for r_ in na]
        for x, y in zip(seq[:-1], seq[1:]):
            check(x[0] < y[0] or (x[0] == y[0] and x[1] <= y[1]), "rows ordered by onset, then pitch", seq)
        sc = S.Score(parts)
        na2 = must_not_raise(sc.note_array, _what="Score.note_array")
        check([(r_["onset_div"], r_["pitch"]) for r_ in na2] == seq, "Score.note_array differs from the part-list array")
        return [[int(a), int(b)] for a, b in seq]

    h.__signature__ = inspect.Signature([inspect.Parameter(n, inspect.Parameter.KEYWORD_ONLY, annotation=int) for n in names])
    return h


def _part_inst(tier):
    T, F = True, False
    base = [
        {"q": 2, "ts": [4, 4], "opts": [F, F, F, F, F, F, F]},
        {"q": 4, "ts": [3, 4], "opts": [T, T, T, T, T, T, F]},
        {"q": 2, "ts": [6, 8], "opts": [F, F, T, F, T, F, T]},
    ]
    if tier == "quick":
        for b in base:
            b["pin_step"] = True
    if tier != "quick":
        base += [{"q": 3, "ts": [2, 2], "opts": [T, F, F, T, F, T, T]}, {"q": 12, "ts": [4, 4], "opts": [F, T, F, F, T, T, F]},
                 {"q": 1, "ts": [4, 4], "opts": [T, T, T, T, T, T, T]}]
    return base


def _list_inst(tier):
    base = [{"qs": [2, 3], "unique": False}, {"qs": [4, 6], "unique": True}, {"qs": [2, 3], "unique": True, "with_empty": True}]
    if tier != "quick":
        base += [{"qs": [3, 5], "unique": False}, {"qs": [2, 2], "unique": True}, {"qs": [2, 3, 4], "unique": True}]
    return base


def make_inverse(mode, divs, pitches, ts0=(4, 4), ts1=None, omax=4, dmax=4, give_divs=True, grace=None):
    """note_array_to_score followed by note_array returns the same onsets, durations and pitches.  The inverse
    direction is a chain of structured-array kernels (lexsort, recfunctions, spelling / voice estimation): the note
    times are symbolic on a small integer grid and realised (the solver enumerates the grid)."""
    n = len(pitches)

    def h(o0: int, d0: int, o1: int, d1: int, o2: int, d2: int):
        import numpy as np
        import partitura.score as S
        from engine import sym
        from engine.hdef import exclude_known
        from partitura.musicanalysis.note_array_to_score import note_array_to_score

        O, D = [o0, o1, o2], [d0, d1, d2]
        for i in range(3):
            if i < n:
                require(0 <= O[i] <= omax)
                require(0 <= D[i] <= dmax)
                if grace is not None:  # row `grace` is a grace note, the others have a duration
                    require(D[i] == 0 if i == grace else D[i] >= 1)
            else:
                require(O[i] == 0)
                require(D[i] == 0)
        O = [int(sym.realize(x)) for x in O[:n]]
        D = [int(sym.realize(x)) for x in D[:n]]
        rows = list(zip(O, D, pitches))
        exp = sorted((o, d, p) for (o, d, p) in rows)
        if mode == "ts":
            # a reference part with a signature change at the second barline provides beat and signature columns
            part = S.Part("P", quarter_duration=divs)
            bar0 = ts0[0] * 4 * divs // ts0[1]
            part.add(S.TimeSignature(*ts0), 0)
            if ts1:
                part.add(S.TimeSignature(*ts1), bar0)
            require(all(d > 0 for d in D))
            for i, (o, d, pch) in enumerate(rows):
                part.add(S.Note("CDEFGAB"[pch % 7], 4, id="n%d" % i, voice=1), o + (bar0 if i else 0), o + (bar0 if i else 0) + d)
            S.add_measures(part)
            fields = ["onset_div", "duration_div", "onset_beat", "duration_beat", "pitch", "ts_beats", "ts_beat_type"]
            src = part.note_array(include_time_signature=True)[fields].copy()
            if give_divs:
                sc = must_not_raise(note_array_to_score, src, divs=divs, _what="note_array_to_score")
            else:
                # divisions inferred from the first note with a duration
                exclude_known("KF-C05-inverse-divs-from-first-note",
                              ts1 is not None and ts1[1] != ts0[1] and O[0] + D[0] > bar0)
                sc = must_not_raise(note_array_to_score, src, _what="note_array_to_score")
            out = sc.note_array(include_time_signature=True)
            dfields = ["onset_div", "duration_div", "pitch"]
            a = sorted(tuple(int(x) for x in r) for r in src[dfields].tolist())
            b = sorted(tuple(int(x) for x in r) for r in out[dfields].tolist())
            check(a == b, "note array of the rebuilt score differs (onsets, durations in divisions, pitches)", a, b)
            # the array says which signature holds at each note, not where it changed: beats and signatures are
            # comparable only when a note sits on the barline of the change
            if ts1 is None or any(o == 0 for o in O[1:]):
                a = sorted(tuple(round(float(x), 5) for x in r) for r in src[fields].tolist())
                b = sorted(tuple(round(float(x), 5) for x in r) for r in out[fields].tolist())
                check(a == b, "note array of the rebuilt score differs (beats, signatures)", a, b)
            return [list(x) for x in b]
        if mode == "div_ts":
            # division columns, divisions and a time signature given as arguments (measures are added, the part is
            # sanitised); recorded finding: a zero-duration row without a note of positive duration at its onset is removed
            exclude_known("KF-C05-inverse-orphan-grace",
                          any(d == 0 and not any(o2 == o and d2 > 0 for (o2, d2, _) in rows) for (o, d, _) in rows))
            na = np.array(rows, dtype=[("onset_div", "i4"), ("duration_div", "i4"), ("pitch", "i4")])
            sc = must_not_raise(note_array_to_score, na, divs=divs, time_sigs=[(0, ts0[0], ts0[1])], _what="note_array_to_score")
            out = sc.note_array()
            got = sorted((int(r["onset_div"]), int(r["duration_div"]), int(r["pitch"])) for r in out)
            check(got == exp, "onsets, durations or pitches change through note_array_to_score (time signature given)", got, exp)
            return [list(g) for g in got]
        if mode == "div":
            na = np.array(rows, dtype=[("onset_div", "i4"), ("duration_div", "i4"), ("pitch", "i4")])
            sc = must_not_raise(note_array_to_score, na, divs=divs, _what="note_array_to_score")
        elif mode == "beat":
            na = np.array([(o / divs, d / divs, p) for (o, d, p) in rows],
                          dtype=[("onset_beat", "f4"), ("duration_beat", "f4"), ("pitch", "i4")])
            sc = must_not_raise(note_array_to_score, na, _what="note_array_to_score")
        else:
            exclude_known("KF-C05-inverse-only-grace-notes", all(d == 0 for d in D))
            na = np.array([(o, d, o / divs, d / divs, p) for (o, d, p) in rows],
                          dtype=[("onset_div", "i4"), ("duration_div", "i4"), ("onset_beat", "f4"), ("duration_beat", "f4"), ("pitch", "i4")])
            sc = must_not_raise(note_array_to_score, na, _what="note_array_to_score")
        out = sc.note_array()
        check(len(out) == n, "number of rows", len(out), n)
        got = sorted((float(r["onset_quarter"]) * divs, float(r["duration_quarter"]) * divs, int(r["pitch"])) for r in out)
        for g, e in zip(got, exp):
            check(abs(g[0] - e[0]) < 1e-4 and abs(g[1] - e[1]) < 1e-4 and g[2] == e[2],
                  "onsets, durations or pitches change through note_array_to_score", mode, divs, got, exp)
        return [[float(x) for x in g] for g in got]

    return h


def _inv_inst(tier):
    out = [{"mode": "div", "divs": 2, "pitches": [60, 67]}, {"mode": "beat", "divs": 4, "pitches": [60, 67]},
           {"mode": "both", "divs": 3, "pitches": [72, 72]}, {"mode": "ts", "divs": 2, "pitches": [60, 64], "ts0": [3, 4], "ts1": [3, 8]},
           {"mode": "ts", "divs": 2, "pitches": [60, 64], "ts0": [3, 4], "ts1": [3, 8], "give_divs": False, "omax": 5},
           {"mode": "div_ts", "divs": 2, "pitches": [60, 62, 64], "omax": 2, "dmax": 2, "grace": 1}]
    if tier != "quick":
        out += [{"mode": "div", "divs": 1, "pitches": [60]}, {"mode": "beat", "divs": 3, "pitches": [64, 64, 60], "omax": 2, "dmax": 3},
                {"mode": "both", "divs": 4, "pitches": [60, 64, 67], "omax": 2, "dmax": 3}, {"mode": "div", "divs": 4, "pitches": [60, 60, 72], "omax": 3, "dmax": 2},
                {"mode": "ts", "divs": 4, "pitches": [60, 64], "ts0": [2, 2], "ts1": [2, 4]}, {"mode": "ts", "divs": 2, "pitches": [60, 64, 67], "ts0": [6, 8], "ts1": [9, 8], "omax": 2, "dmax": 3},
                {"mode": "ts", "divs": 2, "pitches": [60, 64], "ts0": [4, 4], "ts1": None},
                {"mode": "div_ts", "divs": 2, "pitches": [60, 62, 64], "omax": 4, "dmax": 3}, {"mode": "div_ts", "divs": 4, "pitches": [67, 60], "ts0": [3, 8], "omax": 6, "dmax": 4}]
    return out


MODELS = ["syminterp", "symdict", "symnp:partitura.score,partitura.utils.generic,partitura.utils.music", "symppoly"]
HARNESSES = [
    H("part_array", make_part_array, _part_inst, models=MODELS, budget={"quick": 200, "thorough": 1200},
      functions=["music.note_array_from_part", "music.note_array_from_note_list", "music.rest_array_from_part",
                 "music.rest_array_from_rest_list", "Part.notes_tied", "GenericNote.duration_tied", "Part.beat_map",
                 "Part.quarter_map", "Part.key_signature_map", "Part.time_signature_map", "Part.metrical_position_map"],
      bounds="one part, two measures, a two-note tie chain with symbolic split, a grace note, a note without voice/"
             "staff, one rest; symbolic onsets/durations (divs), steps, voices 0..3, fifths; listed divisions, meters "
             "and include_* option tuples",
      outside="float32 rounding of the f4 columns (tolerance 1e-6); division changes inside a part"),
    H("part_list", make_part_list, _list_inst, models=MODELS, budget={"quick": 200, "thorough": 900},
      functions=["music.note_array_from_part_list", "Score.note_array", "music.note_array_from_part"],
      bounds="2-3 parts with different divisions (lcm above all of them), optional empty first part, one symbolic "
             "note + one fixed note each, unique_id_per_part on/off",
      outside="part groups; performed parts"),
    H("inverse", make_inverse, _inv_inst, models=[], budget={"quick": 300, "thorough": 1500}, reals_only=False,
      functions=["note_array_to_score.note_array_to_score", "create_divs_from_beats", "create_beats_from_divs", "create_part",
                 "estimate_voices", "estimate_spelling", "score.add_measures", "score.tie_notes", "music.note_array_from_part"],
      bounds="1-3 notes with concrete pitches, symbolic onset / duration on an integer grid (0..4 divisions, realised: the "
             "solver enumerates the grid), array kinds div (with divs argument) / div with divs and time_sigs arguments (a grace row beside notes: measures added, part sanitised) / beat / both / both + time-signature "
             "columns with a signature change at the second barline (beat / signature columns compared when a note starts on "
             "that barline: the array does not say where a signature changes); listed divisions",
      outside="negative onsets (anacrusis), key-signature columns, given voices / spelling, more than 3 notes"),
]
