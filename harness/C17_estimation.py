"""C17 — spelling, voice and key estimation are total, well-formed and pitch-preserving (partial).

Engine A, pitch-preservation half only: `compute_morphetic_pitch` followed by
`p2pn` (the last two stages of ps13 stage 1) with a symbolic MIDI pitch and an
ARBITRARY morph 0..6: whatever morph the estimator chooses, the spelled pitch
sounds the MIDI pitch, so a score imported from MIDI contains the file's
pitches.  The morph estimation itself (chroma-vector windows), voice separation
and key estimation are dense numeric kernels and are outside the encoding.
"""
from engine.hdef import H
from engine.sym import check, must_not_raise, require

NAT = {"A": 9, "B": 11, "C": 0, "D": 2, "E": 4, "F": 5, "G": 7}


def make_spell(n):
    def h(p0: int, m0: int, p1: int, m1: int):
        from partitura.musicanalysis import pitch_spelling as PS
        from envmodels.symnp import NP_OBJ
        from engine import sym
        import numpy as np

        for p in (p0, p1):
            require(21 <= p <= 108)
        for m in (m0, m1):
            require(0 <= m <= 6)
        if n == 1:
            require(p1 == p0)
            require(m1 == m0)
        rows = [[0, PS.chromatic_pitch_from_midi(p0)], [1, PS.chromatic_pitch_from_midi(p1)]][:n]
        morphs = [m0, m1][:n]
        if sym._ACTIVE["symbolic"]:
            ocp = NP_OBJ.array(rows)
            morph_array = NP_OBJ.array(morphs)
        else:
            ocp = np.array(rows)
            morph_array = np.array(morphs)
        mp = must_not_raise(PS.compute_morphetic_pitch, ocp, morph_array, _what="compute_morphetic_pitch")
        out = []
        # p2pn indexes its name tables with the morph: chromatic and morphetic pitch are made concrete here
        # (the solver enumerates 88 pitches x 7 morphs), compute_morphetic_pitch above ran symbolically
        cps = np.array([int(sym.realize(v)) for v in ocp[:, 1].tolist()])
        mps = np.array([int(sym.realize(v)) for v in np.asarray(mp).reshape(-1).tolist()])
        steps, alters, octaves = must_not_raise(PS.p2pn, cps, mps, _what="p2pn")
        for i, (p, m) in enumerate(zip((p0, p1)[:n], morphs)):
            check(mps[i] % 7 == m, "morphetic pitch does not carry the morph", mps[i], m)
            step, alter, octave = steps[i], alters[i], octaves[i]
            sounding = 12 * (octave + 1) + NAT[str(step)] + alter
            check(sounding == p, "spelled pitch does not sound the MIDI pitch", p, m, str(step), alter, octave)
            check(-6 <= alter <= 6, "alteration further than the nearest octave placement allows", alter)
            out.append([str(step), int(alter), int(octave)])
        return out

    return h


HARNESSES = [
    H("spell_pitch", make_spell, lambda tier: [{"n": 1}] + ([{"n": 2}] if tier != "quick" else []),
      models=["symnp:partitura.musicanalysis.pitch_spelling"], budget={"quick": 200, "thorough": 900},
      functions=["pitch_spelling.compute_morphetic_pitch", "pitch_spelling.p2pn", "pitch_spelling.chromatic_pitch_from_midi"],
      bounds="MIDI pitch 21..108 symbolic, morph 0..6 symbolic (any morph, not only those the estimator would choose), 1-2 notes",
      outside="compute_chroma_vector_array / compute_morph_array (choice of the morph, hence the bound |alter| <= 2 and the "
              "order independence), estimate_voices (VoSA), estimate_key (correlations), load_score_midi"),
]
