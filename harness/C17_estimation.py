"""C17 — spelling, voice and key estimation are total, well-formed and pitch-preserving (partial).

Engine A.  Pitch preservation: `compute_morphetic_pitch` followed by
`p2pn` (the last two stages of ps13 stage 1) with a symbolic MIDI pitch and an
ARBITRARY morph 0..6: whatever morph the estimator chooses, the spelled pitch
sounds the MIDI pitch, so a score imported from MIDI contains the file's
pitches.  Voice estimation: well-formedness of the numbering on small integer grids (enumeration by realisation).
Key estimation: the pitch-class distribution symbolically (octave / transposition / rescaling), the correlation kernel
end to end by realisation.  The morph estimation itself (chroma-vector windows) is outside the encoding.
"""
from engine.hdef import H
from engine.sym import check, must_not_raise, require

NAT = {"A": 9, "B": 11, "C": 0, "D": 2, "E": 4, "F": 5, "G": 7}


def make_spell(n):
    def h(p0: int, m0: int, p1: int, m1: int):
        from partitura.musicanalysis import pitch_spelling as PS
        from envmodels.symnp import NP_OBJ
        from engine import sym
        import numpy as np

        for p in (p0, p1):
            require(21 <= p <= 108)
        for m in (m0, m1):
            require(0 <= m <= 6)
        if n == 1:
            require(p1 == p0)
            require(m1 == m0)
        rows = [[0, PS.chromatic_pitch_from_midi(p0)], [1, PS.chromatic_pitch_from_midi(p1)]][:n]
        morphs = [m0, m1][:n]
        if sym._ACTIVE["symbolic"]:
            ocp = NP_OBJ.array(rows)
            morph_array = NP_OBJ.array(morphs)
        else:
            ocp = np.array(rows)
            morph_array = np.array(morphs)
        mp = must_not_raise(PS.compute_morphetic_pitch, ocp, morph_array, _what="compute_morphetic_pitch")
        out = []
        # p2pn indexes its name tables with the morph: chromatic and morphetic pitch are made concrete here
        # (the solver enumerates 88 pitches x 7 morphs), compute_morphetic_pitch above ran symbolically
        cps = np.array([int(sym.realize(v)) for v in ocp[:, 1].tolist()])
        mps = np.array([int(sym.realize(v)) for v in np.asarray(mp).reshape(-1).tolist()])
        steps, alters, octaves = must_not_raise(PS.p2pn, cps, mps, _what="p2pn")
        for i, (p, m) in enumerate(zip((p0, p1)[:n], morphs)):
            check(mps[i] % 7 == m, "morphetic pitch does not carry the morph", mps[i], m)
            step, alter, octave = steps[i], alters[i], octaves[i]
            sounding = 12 * (octave + 1) + NAT[str(step)] + alter
            check(sounding == p, "spelled pitch does not sound the MIDI pitch", p, m, str(step), alter, octave)
            check(-6 <= alter <= 6, "alteration further than the nearest octave placement allows", alter)
            out.append([str(step), int(alter), int(octave)])
        return out

    return h


def _note_array(rows, units="beat"):
    import numpy as np

    return np.array([(float(o), float(d), int(p)) for (o, d, p) in rows],
                    dtype=[("onset_" + units, "f4"), ("duration_" + units, "f4"), ("pitch", "i4")])


def make_voices(pitches, mono, dmin=0, dmax=2, omax=2, pin_onsets=None):
    """estimate_voices on n notes with concrete pitches and symbolic onset / duration (small integer grids, realised:
    VoSA is a numeric kernel on numpy arrays, the solver enumerates the grid)."""
    n = len(pitches)

    def h(o0: int, d0: int, o1: int, d1: int, o2: int, d2: int, o3: int, d3: int):
        from engine import sym
        from partitura.musicanalysis import voice_separation as VS

        O, D = [o0, o1, o2, o3], [d0, d1, d2, d3]
        for i in range(4):
            if i < n:
                require(0 <= O[i] <= omax)
                require(dmin <= D[i] <= dmax)
            else:
                require(O[i] == 0)
                require(D[i] == 0)
        for i, o in (pin_onsets or {}).items():
            require(O[int(i)] == o)
        O = [int(sym.realize(x)) for x in O[:n]]
        D = [int(sym.realize(x)) for x in D[:n]]
        rows = list(zip(O, D, pitches))
        v = must_not_raise(VS.estimate_voices, _note_array(rows), monophonic_voices=mono, _what="estimate_voices")
        v = [int(x) for x in v]
        check(len(v) == n, "one voice per input note", len(v), n)
        check(all(x >= 1 for x in v), "voice numbers are positive", v)
        check(set(v) == set(range(1, max(v) + 1)), "voices are not numbered from 1 without gaps", v, rows)
        if not mono:
            for i in range(n):
                for j in range(i + 1, n):
                    if O[i] == O[j] and D[i] == D[j]:
                        check(v[i] == v[j], "chord mode: identical onset and duration, different voices", rows, v)
        # the estimate does not modify its input and is a function of it
        v2 = [int(x) for x in VS.estimate_voices(_note_array(rows), monophonic_voices=mono)]
        check(v == v2, "two runs on the same input differ", v, v2)
        return v

    return h


def _inst_voices(tier):
    out = [{"pitches": [60, 64, 72], "mono": True}, {"pitches": [60, 64, 64], "mono": False},
           # staggered overlapping entries (an internal voice slot may stay unused): two onsets pinned to keep the grid small
           {"pitches": [73, 62, 63, 81], "mono": True, "dmin": 2, "dmax": 4, "pin_onsets": {"0": 0, "1": 0}}]
    if tier != "quick":
        out += [{"pitches": [60, 64, 72], "mono": False}, {"pitches": [62, 62, 62], "mono": True},
                {"pitches": [73, 62, 63, 81], "mono": True, "dmin": 2, "dmax": 4}, {"pitches": [73, 62, 63, 81], "mono": False, "dmin": 2, "dmax": 4},
                {"pitches": [60, 60, 67, 67], "mono": True, "dmin": 0, "dmax": 2}, {"pitches": [60, 60, 67, 67], "mono": False, "dmin": 0, "dmax": 2}]
    return out


def _valid_key_names():
    from partitura.utils.globals import KEYS

    return {step + ("m" if mode == "minor" else ""): (i % 12, mode) for i, (step, mode, fifths) in enumerate(KEYS)}


PC = {"C": 0, "D": 2, "E": 4, "F": 5, "G": 7, "A": 9, "B": 11}


def _tonic(name):
    minor = name.endswith("m")
    root = name[:-1] if minor else name
    pc = PC[root[0]] + root.count("#") - root.count("b")
    return pc % 12, ("minor" if minor else "major")


def make_key_dist(n, k):
    """The duration-weighted pitch-class distribution (the only place where the notes enter key estimation) with
    symbolic pitches and symbolic (real) durations: octave shifts leave it unchanged, transposition by k rotates it
    by k, rescaling the durations rescales it."""

    def h(p0: int, p1: int, p2: int, d0: float, d1: float, d2: float):
        import numpy as np
        from engine import sym
        from partitura.musicanalysis import key_identification as K

        P, D = [p0, p1, p2][:n], [d0, d1, d2][:n]
        for p in P:
            require(21 <= p <= 108 - 12)
        for d in D:
            require(0 < d <= 64)
        for x in ([p1, p2, d1, d2][n - 1:2] + [p1, p2, d1, d2][2 + n - 1:]):
            require(x == (21 if isinstance(x, int) else 1))

        def dist(pitches, durs):
            if sym._ACTIVE["symbolic"]:
                from envmodels.symnp import NP_OBJ

                na = NP_OBJ.array([(i, durs[i], pitches[i]) for i in range(n)],
                                  dtype=[("onset_beat", "f4"), ("duration_beat", "f4"), ("pitch", "i4")])
            else:
                na = _note_array([(i, durs[i], pitches[i]) for i in range(n)])
            seen = []

            def rec(x, y):
                seen.append(x)
                return 0.0

            must_not_raise(K._similarity_with_pitch_profile, na, key_profiles=K.KRUMHANSL_KESSLER[:1], similarity_func=rec,
                           _what="_similarity_with_pitch_profile")
            return [v for v in np.asarray(seen[0]).reshape(-1).tolist()]

        base = dist(P, D)
        check(len(base) == 12, "twelve pitch classes", len(base))
        tol = 1e-4  # durations are stored as float32 when concrete
        tot = 0
        for v in base:
            tot = tot + v
        ref = 0
        for d in D:
            ref = ref + d
        check(abs(tot - ref) <= tol * n, "the distribution loses or invents duration", tot, ref)
        up = dist([p + 12 for p in P], D)
        for a, b in zip(base, up):
            check(abs(a - b) <= tol, "octave shift changes the pitch-class distribution", base, up)
        tr = dist([p + k for p in P], D)
        for i in range(12):
            check(abs(tr[(i + k) % 12] - base[i]) <= tol, "transposition does not rotate the distribution", k, base, tr)
        sc = dist(P, [2 * d for d in D])
        for a, b in zip(base, sc):
            check(abs(2 * a - b) <= 2 * tol, "rescaled durations do not rescale the distribution", base, sc)
        return [float(x) for x in base]

    return h


def make_key_e2e(context, profiles, k):
    """estimate_key end to end: a concrete context plus one note of symbolic pitch (realised: correlations are a float
    kernel).  Valid name, octave-shift and duration-rescaling invariance, transposition equivariance; inputs whose two
    best correlations are closer than 1e-9 (ties decided by rounding noise) are outside the claim."""

    def h(p: int, dsel: int):
        import numpy as np
        from engine import sym
        from partitura.musicanalysis import key_identification as K

        require(21 <= p <= 108)
        require(0 <= dsel <= 2)
        p = int(sym.realize(p))
        d = [1.0, 2.0, 0.5][int(sym.realize(dsel))]
        rows = [(i, dd, pp) for i, (dd, pp) in enumerate(context)] + [(len(context), d, p)]
        valid = _valid_key_names()

        def est(rws):
            na = _note_array(rws)
            name = must_not_raise(K.estimate_key, na, key_profiles=profiles, _what="estimate_key")
            corrs = np.sort(K._similarity_with_pitch_profile(na, key_profiles={"krumhansl_kessler": K.KRUMHANSL_KESSLER, "temperley": K.CMBS, "kostka_payne": K.KOSTKA_PAYNE}[profiles]))
            return name, float(corrs[-1] - corrs[-2])

        name, gap = est(rows)
        check(name in valid, "not a valid key name", name)
        if not (gap > 1e-9):
            return [name, "tie"]
        pcs = [r[2] for r in rows]
        for sh in (12, -12, 24, -24):
            if min(pcs) + sh >= 21 and max(pcs) + sh <= 108:
                n2, _ = est([(o, dd, pp + sh) for (o, dd, pp) in rows])
                check(n2 == name, "octave shift changes the key", sh, name, n2, rows)
        n3, _ = est([(o, dd * 2, pp) for (o, dd, pp) in rows])
        check(n3 == name, "rescaling all durations changes the key", name, n3, rows)
        n3b, _ = est([(o * 3 + 1, dd, pp) for (o, dd, pp) in rows])
        check(n3b == name, "moving the onsets changes the key", name, n3b, rows)
        sh = k if max(pcs) + k <= 108 else k - 12
        if min(pcs) + sh >= 21:
            n4, _ = est([(o, dd, pp + sh) for (o, dd, pp) in rows])
            t0, m0 = _tonic(name)
            t1, m1 = _tonic(n4)
            check(m0 == m1 and t1 == (t0 + k) % 12, "transposition by k does not transpose the tonic by k", k, name, n4, rows)
        return [name, "ok"]

    return h


def make_midi_import(n, est_key, est_voice, mode=0):
    """load_score_midi on an in-memory MIDI file: the parts contain exactly the file's pitches (with the estimators
    switched on or off), each at its onset with its duration; the spelling never needs more than a double accidental.
    Pitches symbolic 21..108, realised (ps13 is a numeric kernel: the solver enumerates)."""

    def h(p0: int, p1: int, p2: int, stagger: int):
        import mido
        import partitura.score as S
        from engine import sym
        from partitura.io.importmidi import load_score_midi

        P = [p0, p1, p2]
        for i in range(3):
            require(21 <= P[i] <= 108 if i < n else P[i] == 21)
        require(0 <= stagger <= 2)
        P = [int(sym.realize(x)) for x in P[:n]]
        stagger = int(sym.realize(stagger))
        mid = mido.MidiFile(ticks_per_beat=4)
        tr = mido.MidiTrack()
        mid.tracks.append(tr)
        tr.append(mido.MetaMessage("time_signature", numerator=4, denominator=4, time=0))
        # note i sounds [i*stagger, i*stagger + 4): simultaneous (chord), overlapping or consecutive
        events = []
        for i, p in enumerate(P):
            events.append((i * stagger * 2, 1, p, i))
            events.append((i * stagger * 2 + 4, 0, p, i))
        # a repeated pitch must end before it starts again (MIDI pairs on/off by pitch)
        require(len(set(P)) == len(P) or stagger == 2)
        events.sort(key=lambda e: (e[0], e[1]))
        t = 0
        for (tt, on, p, i) in events:
            tr.append(mido.Message("note_on" if on else "note_off", note=p, velocity=64 if on else 0, time=tt - t, channel=0))
            t = tt
        sc = must_not_raise(load_score_midi, mid, part_voice_assign_mode=mode, estimate_key=est_key, estimate_voice_info=est_voice,
                            _what="load_score_midi")
        notes = [x for part in S.iter_parts(sc.parts) for x in part.notes_tied]
        got = sorted((int(x.start.t), int(x.duration_tied), int(x.midi_pitch)) for x in notes)
        exp = sorted((i * stagger * 2, 4, p) for i, p in enumerate(P))
        check(got == exp, "the imported score does not contain exactly the file's notes", got, exp)
        for x in notes:
            check(-2 <= (x.alter or 0) <= 2, "more than a double accidental", x.step, x.alter, x.octave)
            if est_voice:  # without estimation the "no voices" modes store voice 0 by design
                check(x.voice is not None and x.voice >= 1, "estimated voice number", x.voice)
        if est_key:
            ks = [k for part in S.iter_parts(sc.parts) for k in part.iter_all(S.KeySignature)]
            check(len(ks) >= 1 and all(-7 <= k.fifths <= 7 and k.mode in ("major", "minor") for k in ks), "estimated key signature",
                  [(k.fifths, k.mode) for k in ks])
        return [list(g) for g in got]

    return h


def _inst_midi(tier):
    out = [{"n": 1, "est_key": True, "est_voice": True}, {"n": 1, "est_key": False, "est_voice": False, "mode": 4}]
    if tier != "quick":
        out += [{"n": 2, "est_key": True, "est_voice": True, "mode": 4}, {"n": 2, "est_key": False, "est_voice": True}]
    return out


CONTEXTS = {"cmaj": [(1.0, 60), (2.0, 64), (1.0, 67), (0.5, 65)], "amin": [(1.0, 57), (1.0, 60), (2.0, 64), (0.5, 68)],
            "top": [(1.0, 96), (1.0, 100), (1.0, 103), (0.5, 101)], "one": [(1.0, 66)]}


def _inst_key_e2e(tier):
    out = [{"context": "cmaj", "profiles": "krumhansl_kessler", "k": 5}, {"context": "top", "profiles": "kostka_payne", "k": 2}]
    if tier != "quick":
        out = [{"context": c, "profiles": pr, "k": k} for c in CONTEXTS for pr, k in
               (("krumhansl_kessler", 1), ("krumhansl_kessler", 7), ("temperley", 5), ("kostka_payne", 2), ("kostka_payne", 11))]
    return out


def _mk_key_e2e(context, profiles, k):
    return make_key_e2e(CONTEXTS[context], profiles, k)


def profile_table_vectors():
    """static tables: the 24 profiles of each set are rotations of the major / minor profile, aligned with KEYS"""
    import numpy as np
    from partitura.musicanalysis import key_identification as K
    from partitura.utils.globals import KEYS

    bad = []
    for nm in ("KRUMHANSL_KESSLER", "CMBS", "KOSTKA_PAYNE"):
        M = getattr(K, nm)
        if M.shape != (24, 12):
            bad.append((nm, "shape", M.shape))
            continue
        for i in range(24):
            base = M[0] if i < 12 else M[12]
            if not np.array_equal(M[i], np.roll(base, i % 12)):
                bad.append((nm, "row", i))
    for i, (step, mode, fifths) in enumerate(KEYS):
        t, m = _tonic(step + ("m" if mode == "minor" else ""))
        if t != i % 12 or m != ("major" if i < 12 else "minor"):
            bad.append(("KEYS", i, step, mode))
    return bad


HARNESSES = [
    H("spell_pitch", make_spell, lambda tier: [{"n": 1}] + ([{"n": 2}] if tier != "quick" else []),
      models=["symnp:partitura.musicanalysis.pitch_spelling"], budget={"quick": 200, "thorough": 900},
      functions=["pitch_spelling.compute_morphetic_pitch", "pitch_spelling.p2pn", "pitch_spelling.chromatic_pitch_from_midi"],
      bounds="MIDI pitch 21..108 symbolic, morph 0..6 symbolic (any morph, not only those the estimator would choose), 1-2 notes",
      outside="compute_chroma_vector_array / compute_morph_array (choice of the morph, hence the bound |alter| <= 2 and the "
              "order independence)"),
    H("voices", make_voices, _inst_voices, models=[], budget={"quick": 200, "thorough": 1500}, reals_only=False,
      functions=["voice_separation.estimate_voices", "prepare_notearray", "rename_voices", "VoSA.__init__", "VoSA.make_contigs",
                 "VoSA.estimate_voices", "pairwise_cost", "est_best_connections"],
      bounds="3-4 notes with concrete pitches per instance, symbolic onset 0..2 and duration (0..2 or 2..4) on an integer grid, "
             "realised (the solver enumerates the grid: 9^n inputs per instance); both voice modes",
      outside="more than 4 notes, non-integer onsets, order independence, quality of the separation"),
    H("key_dist", make_key_dist, lambda tier: [{"n": 2, "k": 5}] + ([{"n": 2, "k": 1}, {"n": 3, "k": 7}] if tier != "quick" else []),
      models=["symnp:partitura.musicanalysis.key_identification,partitura.utils.music"], budget={"quick": 200, "thorough": 1500},
      functions=["key_identification._similarity_with_pitch_profile (pitch-class distribution)", "music.get_time_units_from_note_array"],
      bounds="2-3 notes, symbolic MIDI pitch 21..96, symbolic real duration in (0, 64]; transposition k concrete per instance; "
             "the distribution is observed through the similarity_func argument",
      outside="the correlation / argmax kernel (harness key_e2e and the static profile-table check), more notes"),
    H("midi_import", make_midi_import, _inst_midi, models=[], budget={"quick": 300, "thorough": 3000}, reals_only=False,
      functions=["importmidi.load_score_midi", "importmidi.create_part", "pitch_spelling.estimate_spelling (ps13s1)",
                 "voice_separation.estimate_voices", "key_identification.estimate_key"],
      bounds="in-memory MIDI file, one track, 1-2 notes of 4 ticks with symbolic pitch 21..108 (realised: 88^n inputs x 3 "
             "staggerings: chord / overlap / consecutive), estimators on or off, listed assignment modes",
      outside="more notes (the chroma windows of ps13 span 10+40 notes), several tracks / channels, tempo and key events"),
    H("key_e2e", _mk_key_e2e, _inst_key_e2e, models=[], budget={"quick": 200, "thorough": 900}, reals_only=False,
      functions=["key_identification.estimate_key", "ks_kid", "_similarity_with_pitch_profile", "corr", "format_key"],
      bounds="a concrete 1-4 note context per instance plus one note with symbolic pitch 21..108 and duration in {0.5, 1, 2} "
             "(realised: 264 inputs per instance); listed profile sets and transposition k",
      outside="inputs whose two best correlations differ by less than 1e-9; longer inputs"),
]
