"""C15 — merging parts keeps every note at the same musical time in disjoint voices.

Engine A on `merge_parts` with two parts of different divisions: symbolic
onsets, voices and staves; oracle from the statement (times rescaled to the
lcm, voice/staff classes of different inputs disjoint and classes inside an
input preserved, structural elements from the first part only, sounding notes
equal to the score-level note array, result is a consistent timeline whose
points carry the lcm as quarter duration).
"""
import inspect
from math import gcd

from engine.hdef import H, exclude_known
from engine.sym import check, must_not_raise, require


def make(qa, qb, reassign, free=None, a_no_staff=False):
    DEFAULTS = {"on_a": 0, "on_b": 0, "va1": 1, "va2": 1, "vb1": 1, "vb2": 1, "sa": 1, "sb": 1}
    names = ["on_a", "on_b", "va1", "va2", "vb1", "vb2", "sa", "sb"]

    def h(on_a: int, on_b: int, va1: int, va2: int, vb1: int, vb2: int, sa: int, sb: int):
        import partitura.score as S
        from partitura.utils import music as M

        L = qa * qb // gcd(qa, qb)
        if free is not None:  # pin the variables that are not free in this instance (fewer orderings)
            loc = {"on_a": on_a, "on_b": on_b, "va1": va1, "va2": va2, "vb1": vb1, "vb2": vb2, "sa": sa, "sb": sb}
            for k_, d_ in DEFAULTS.items():
                if k_ not in free:
                    require(loc[k_] == d_)
        require(0 <= on_a <= 4 * qa)
        require(0 <= on_b <= 4 * qb)
        for v in (va1, va2, vb1, vb2):
            require(1 <= v <= 3)  # voice numbers need not be contiguous inside a part
        require(0 <= sa <= 2)  # 0 stands for "no staff"
        require(0 <= sb <= 2)
        A = S.Part("A", quarter_duration=qa)
        B = S.Part("B", quarter_duration=qb)
        for P, q in ((A, qa), (B, qb)):
            P.add(S.TimeSignature(4, 4), 0)
            P.add(S.Measure(number=1), 0, 8 * q)
            P.add(S.Clef(1, "G", 2, 0), 0)
        a1 = S.Note("C", 4, id="a1", voice=va1, staff=(sa if sa > 0 else None))
        if a_no_staff:
            require(sa == 0)  # no note of the first part carries a staff (parts imported from MIDI): counts as staff 1
        a2 = S.Note("E", 4, id="a2", voice=va2, staff=None if a_no_staff else 1)
        b1 = S.Note("G", 4, id="b1", voice=vb1, staff=(sb if sb > 0 else None))
        b2 = S.Rest(id="b2", voice=vb2, staff=1)
        w = S.Words("dolce", staff=1)
        A.add(a1, on_a, on_a + qa)
        A.add(a2, 0, 2 * qa)
        B.add(b1, on_b, on_b + qb)
        B.add(b2, 0, qb)
        B.add(w, on_b)
        from engine import sym

        # the score-level note array is compared on concrete replays only (each array costs seconds under tracing);
        # the rescaling itself is asserted on the objects below for all symbolic values
        ref_list = None
        if sym.CONCRETE:
            # reference = score-level array of the inputs plus a tacet part of other divisions between them
            E = S.Part("E", quarter_duration=5)
            E.add(S.TimeSignature(4, 4), 0)
            E.add(S.Rest(id="e", voice=1), 0, 5)
            ref = must_not_raise(M.note_array_from_part_list, [A, E, B], _what="note_array_from_part_list")
            # (a part without sounding notes does not take part in the common divisions)
            ref_list = [(r_["onset_div"], r_["duration_div"], r_["pitch"]) for r_ in ref]
        if reassign == "auto":
            exclude_known("KF-C15-auto-keyerror", sa == 0 or sb != 1 or vb2 != vb1)
        old = {"a1": (va1, sa if sa > 0 else 1), "a2": (va2, 1), "b1": (vb1, sb if sb > 0 else 1), "b2": (vb2, 1)}
        m = must_not_raise(S.merge_parts, [A, B], reassign=reassign, _what="merge_parts")
        # --- every element at the same musical time, rescaled to the lcm
        exp_t = {"a1": (on_a * (L // qa), (on_a + qa) * (L // qa)), "a2": (0, 2 * qa * (L // qa)),
                 "b1": (on_b * (L // qb), (on_b + qb) * (L // qb)), "b2": (0, qb * (L // qb))}
        objs = {"a1": a1, "a2": a2, "b1": b1, "b2": b2}
        present = {o.id: o for o in m.iter_all(S.GenericNote, include_subclasses=True)}
        check(sorted(present) == ["a1", "a2", "b1", "b2"], "notes/rests of the inputs in the merged part", sorted(present))
        for k, (s, e) in exp_t.items():
            o = present[k]
            check(o.start.t == s and o.end.t == e, "element not at the same musical time (lcm rescaling)", k, o.start.t, s)
        ws = list(m.iter_all(S.Words))
        check(len(ws) == 1 and ws[0].start.t == on_b * (L // qb), "non-structural element (words) kept at its time")
        # --- structural elements from the first part only
        check(len(list(m.iter_all(S.Measure))) == 1 and len(list(m.iter_all(S.TimeSignature))) == 1,
              "measures / time signatures come from the first part only")
        ms = list(m.iter_all(S.Measure))[0]
        check(ms.start.t == 0 and ms.end.t == 8 * L, "measure of the first part rescaled")
        # --- voices / staves: disjoint across inputs, preserved inside an input
        key = (lambda o: o.voice) if reassign in ("voice", "auto") else (lambda o: o.staff if o.staff is not None else 1)
        idx = 0 if reassign in ("voice", "auto") else 1
        for x in ("a1", "a2"):
            for y in ("b1", "b2"):
                check(key(present[x]) != key(present[y]), "elements of different inputs share a voice/staff", reassign, x, y,
                      key(present[x]), key(present[y]))
        for (x, y) in (("a1", "a2"), ("b1", "b2")):
            check((key(present[x]) == key(present[y])) == (old[x][idx] == old[y][idx]),
                  "voice/staff classes inside an input not preserved", reassign, x, y)
        # --- consistent timeline with the lcm as quarter duration
        pts = list(m._points)
        for i, p in enumerate(pts):
            check(p.quarter == L, "time point of the merged part does not carry the lcm as quarter duration", p.t, p.quarter, L)
            check(p.prev is (pts[i - 1] if i else None) and p.next is (pts[i + 1] if i + 1 < len(pts) else None),
                  "prev/next links of the merged timeline")
        check(int(m.quarter_duration_map(0)) == L, "quarter duration of the merged part")
        # --- sounding notes equal the score-level array
        if ref_list is not None:
            na = must_not_raise(m.note_array, _what="merged.note_array")
            got = [(r_["onset_div"], r_["duration_div"], r_["pitch"]) for r_ in na]
            check(len(got) == len(ref_list), "number of sounding notes")
            for g in got:
                check(any(g[0] == r_[0] and g[1] == r_[1] and g[2] == r_[2] for r_ in ref_list),
                      "sounding note of the merged part not in the score-level note array", g)
        return [[int(o.start.t), int(o.end.t)] for o in (present["a1"], present["b1"])]

    return h


def make_single():
    def h(t: int):
        import partitura.score as S

        require(0 <= t <= 100)
        A = S.Part("A", quarter_duration=2)
        A.add(S.Note("C", 4, id="a", voice=1), t, t + 2)
        check(S.merge_parts([A]) is A, "a single part in a list is not returned as is")
        check(S.merge_parts(A) is A, "a single part is not returned as is")
        g = S.PartGroup(group_name="g")
        g.children = [A]
        check(S.merge_parts(g) is A, "a group holding one part does not return that part")
        check(S.merge_parts([g]) is A, "a list holding a group with one part does not return that part")
        # a list holding one group of two parts is merged like the two parts
        B = S.Part("B", quarter_duration=3)
        B.add(S.Note("E", 4, id="b", voice=1), 0, 3)
        g2 = S.PartGroup(group_name="g2")
        g2.children = [A, B]
        m = must_not_raise(S.merge_parts, [g2], _what="merge_parts([group])")
        check(isinstance(m, S.Part), "a list holding one group of two parts is not merged", type(m).__name__)
        ids = sorted(n.id for n in m.notes)
        check(ids == ["a", "b"], "merged part of a group in a list", ids)
        na = [n for n in m.notes if n.id == "a"][0]
        check(na.start.t == t * 3 and na.end.t == (t + 2) * 3, "rescaling to the lcm in the group case", na.start.t)
        return 0

    return h


def _inst(tier):
    out = [{"qa": 2, "qb": 3, "reassign": "voice", "free": ["on_a", "va1", "vb2"]},
           {"qa": 2, "qb": 3, "reassign": "voice", "free": ["on_b", "va2", "vb1"]},
           {"qa": 4, "qb": 6, "reassign": "staff", "free": ["on_b", "sa", "sb"]},
           {"qa": 3, "qb": 2, "reassign": "auto", "free": ["on_a", "sa", "va1", "va2"]},
           {"qa": 2, "qb": 3, "reassign": "staff", "free": ["on_a", "sa", "sb"], "a_no_staff": True}]
    if tier != "quick":
        out += [{"qa": 2, "qb": 2, "reassign": "voice"}, {"qa": 1, "qb": 1, "reassign": "staff"}, {"qa": 3, "qb": 5, "reassign": "voice"},
                {"qa": 4, "qb": 6, "reassign": "auto"}]
    return out


MODELS = ["syminterp", "symdict", "symnp:partitura.score,partitura.utils.generic,partitura.utils.music", "symppoly",
          "untraced_subclasses"]
HARNESSES = [
    H("merge", make, _inst, models=MODELS, budget={"quick": 200, "thorough": 900},
      functions=["score.merge_parts", "score.iter_parts", "Part.note_array", "music.note_array_from_part_list", "Part.add"],
      bounds="two parts with the listed division pairs; per part one note with symbolic onset, voice (1..3) and staff "
             "(none/1/2), one fixed note or rest with symbolic voice, a words direction, measure/time signature/clef; "
             "three reassign modes",
      outside="three or more parts, part groups, parts with several division values"),
    H("single", make_single, lambda tier: [{}], budget={"quick": 150, "thorough": 300}, models=MODELS,
      functions=["score.merge_parts (single part, list, group)"], bounds="one part, symbolic onset"),
]
