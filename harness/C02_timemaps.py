"""C02 — quarter and beat maps are exact, monotone and mutually inverse.

The real ``Part._time_interpolator`` (through ``beat_map / quarter_map /
inv_*``) is executed on a part whose *shape* (quarter-duration values, time
signatures, first-measure kind, beat mode) is concrete per instance and whose
*positions* (first/last point, every change point, measure end, query) are
unbounded symbolic ints.  Oracle: exact piecewise integral of the rate
(1/q)*(beat_type/4)[*musical_beats/beats] from the origin stated in the
property, in integer arithmetic over a common denominator.
"""
import inspect
from math import gcd

from engine.hdef import H, exclude_known
from engine import sym
from engine.sym import check, must_not_raise, require

TOL = 1e-9
TMAX = 10 ** 7  # positions up to 10^7 divisions (float64 keeps 1e-9 relative accuracy far beyond)

SHAPES = {
    # name: (q values, [(beats, beat_type)], measure kind, musical, custom mbeats, which map)
    "q1_44": ([1], [(4, 4)], "none", False, None, "beat"),
    "q2_34_quarter": ([2], [(3, 4)], "none", False, None, "quarter"),
    "q23_68": ([2, 3], [(6, 8)], "none", False, None, "beat"),
    "q23_68_quarter": ([2, 3], [(6, 8)], "none", False, None, "quarter"),
    "q4_68_24": ([4], [(6, 8), (2, 4)], "none", False, None, "beat"),
    "q4_68_24_mus": ([4], [(6, 8), (2, 4)], "none", True, None, "beat"),
    "q2_44_pickup": ([2], [(4, 4)], "first", False, None, "beat"),
    "q2_34_pickup_quarter": ([2], [(3, 4)], "first", False, None, "quarter"),
    "q12_68_pickup_mus": ([1, 2], [(6, 8)], "first", True, None, "beat"),
    "q2_98_custom": ([2], [(9, 8)], "first", True, {"9/8": 4}, "beat"),
    "q32_32_58": ([3, 2], [(3, 2), (5, 8)], "first", False, None, "beat"),
    "q124_128_mus": ([1, 2, 4], [(12, 8)], "none", True, None, "beat"),
    "q6_24_34_44": ([6], [(2, 4), (3, 4), (4, 4)], "first", False, None, "beat"),
    "q23_34_68_quarter_pickup": ([2, 3], [(3, 4), (6, 8)], "first", False, None, "quarter"),
    # quarter maps while musical beats are switched on (the quarter map must not depend on the beat mode)
    "q2_38_quarter_musmode": ([2], [(3, 8)], "first", "quarter_in_musical_mode", None, "quarter"),
    "q2_68_quarter_musmode": ([2], [(6, 8)], "first", "quarter_in_musical_mode", None, "quarter"),
    # beat-mode histories: custom musical beats, back to notated, musical again -> defaults must be in force
    "q2_68_mus_seq": ([2], [(6, 8)], "first", "custom_notated_musical", None, "beat"),
    "q4_98_mus_seq_notated": ([4], [(9, 8)], "none", "custom_then_notated", None, "beat"),
}
QUICK = ["q1_44", "q2_34_quarter", "q23_68", "q4_68_24_mus", "q2_44_pickup", "q2_34_pickup_quarter",
         "q12_68_pickup_mus", "q2_98_custom", "q2_38_quarter_musmode", "q2_68_mus_seq",
         "q4_98_mus_seq_notated"]

MUSICAL = {2: 2, 3: 3, 4: 4, 6: 2, 9: 3, 12: 4}


def _lcm(a, b):
    return a * b // gcd(a, b)


def make(shape):
    qvals, tss, mkind, musical, custom, which = SHAPES[shape]
    history = musical if isinstance(musical, str) else None
    if history == "quarter_in_musical_mode":
        musical = False  # oracle: the quarter map ignores the beat mode
    elif history == "custom_notated_musical":
        musical = True   # ends in musical mode with DEFAULT musical beats
    elif history == "custom_then_notated":
        musical = False
    names = ["t_first", "t_last", "t"]
    names += ["tq%d" % i for i in range(1, len(qvals))]
    names += ["tts%d" % i for i in range(1, len(tss))]
    if mkind == "first":
        names.append("t_mend")

    def mus_beats(b, bt):
        if custom and ("%d/%d" % (b, bt)) in custom:
            return custom["%d/%d" % (b, bt)]
        return MUSICAL.get(b, b)

    # rate of each (q, ts) as a fraction num/den  (units per division)
    def rate(q, b, bt):
        if which == "quarter":
            return (1, q)
        num, den = bt, 4 * q
        if musical:
            num, den = num * mus_beats(b, bt), den * b
        return (num, den)

    D = 1
    inexact = False  # some rate constant is not a binary fraction: float ties differ from exact ties
    for q in qvals:
        for (b, bt) in tss:
            n_, d_ = rate(q, b, bt)
            D = _lcm(D, d_)
            d_ //= gcd(n_, d_)
            if d_ & (d_ - 1):
                inexact = True

    def h(**kw):
        import partitura.score as S

        t_first, t_last, t = kw["t_first"], kw["t_last"], kw["t"]
        require(t_first >= 0)
        require(t_last <= TMAX)
        require(t_first < t_last)
        require(t_first <= t)
        require(t <= t_last)
        exclude_known("KF-C02-origin-not-first-point", t_first != 0)
        tq = [0] + [kw["tq%d" % i] for i in range(1, len(qvals))]
        for i in range(1, len(tq)):
            require(tq[i] > tq[i - 1])
            require(tq[i] <= TMAX)
        tts = [t_first] + [kw["tts%d" % i] for i in range(1, len(tss))]
        for i in range(1, len(tts)):
            require(tts[i] > tts[i - 1])
            require(tts[i] <= t_last)
        part = S.Part("P", quarter_duration=qvals[0])
        anchor = S.Note("C", 4, id="n0")
        part.add(anchor, t_first, t_last)
        ts_objs = []
        for (b, bt), tt in zip(tss, tts):
            o = S.TimeSignature(b, bt)
            part.add(o, tt)
            ts_objs.append(o)
        for q, tt in list(zip(qvals, tq))[1:]:
            part.set_quarter_duration(tt, q)
        if mkind == "first":
            t_mend = kw["t_mend"]
            require(t_mend > t_first)
            require(t_mend <= t_last)
            part.add(S.Measure(number=1), t_first, t_mend)
        if history == "quarter_in_musical_mode":
            part.use_musical_beat()
        elif history in ("custom_notated_musical", "custom_then_notated"):
            odd = {"%d/%d" % tss[0]: tss[0][0]}  # a non-default number of musical beats
            part.use_musical_beat(odd)
            part.use_notated_beat()
            if history == "custom_notated_musical":
                part.use_musical_beat()
        elif musical:
            part.use_musical_beat(custom or {})

        # ---------------- oracle (exact, integer arithmetic over denominator D)
        def q_at(x):
            cur = qvals[0]
            for qq, tt in zip(qvals, tq):
                if tt <= x:
                    cur = qq
            return cur

        def ts_at(x):
            cur = tss[0]
            for s, tt in zip(tss, tts):
                if tt <= x:
                    cur = s
            return cur

        cuts = []
        for v in tq[1:] + tts[1:]:
            if not any(v == u for u in cuts):
                cuts.append(v)
        cuts.sort()

        def integral(a, b):
            """D * integral of rate over [a, b], a <= b (an int expression)."""
            total = 0
            edges = [a] + [c for c in cuts if a < c and c < b] + [b]
            for lo, hi in zip(edges[:-1], edges[1:]):
                bb, bt = ts_at(lo)
                n, d = rate(q_at(lo), bb, bt)
                total = total + (hi - lo) * (n * (D // d))
            return total

        origin = t_first
        if mkind == "first":
            b0, bt0 = tss[0]
            normal = b0 if which == "beat" else None
            if which == "quarter":
                # beats * 4 / beat_type quarters
                normal_num, normal_den = b0 * 4, bt0
            elif musical:
                normal_num, normal_den = mus_beats(b0, bt0), 1
            else:
                normal_num, normal_den = b0, 1
            actual = integral(t_first, t_mend)
            if inexact and sym._ACTIVE["symbolic"]:
                # reals cannot decide the float comparison actual_dur < normal_dur at an exact tie when the
                # rate constants are not binary fractions; the tie (exactly full first bar) is covered by the
                # concrete vectors of this harness, which run on the real libraries.
                require(actual * normal_den != normal_num * D)
            if actual * normal_den < normal_num * D:
                origin = t_mend  # pickup: zero at the start of the first full measure

        def ref(x):
            return integral(origin, x) if x >= origin else -integral(x, origin)

        fwd = part.quarter_map if which == "quarter" else part.beat_map
        inv = part.inv_quarter_map if which == "quarter" else part.inv_beat_map
        obs = []
        for x in [t, t_first, t_last] + cuts:
            if x < t_first or x > t_last:
                continue
            got = must_not_raise(fwd, x, _what="forward map")
            got = got.item() if hasattr(got, "item") else got
            r = ref(x)
            err = got * D - r
            err = err if err >= 0 else -err
            ar = r if r >= 0 else -r
            check(err <= TOL * (D + ar), "forward map value differs from exact integral", shape, x)
            if sym._ACTIVE["symbolic"]:
                # inv(fwd(x)) is non-linear in the symbolic times (z3: unknown); the exact value r/D of fwd(x)
                # is linear.  With non-binary rate constants r/D can exceed the last knot by 1e-17 (-> nan),
                # so the two end points are left to the concrete vectors.
                if inexact and (x == t_first or x == t_last):
                    continue
                back = must_not_raise(inv, r / D, _what="inverse map")
            else:
                back = must_not_raise(inv, got, _what="inverse map")  # inv(fwd(x)), as the property states
            back = back.item() if hasattr(back, "item") else back
            e2 = back - x
            e2 = e2 if e2 >= 0 else -e2
            check(e2 <= 1e-6 * (1 + x), "inverse map does not undo forward map", shape, x)
            obs.append(got)
        qd = must_not_raise(part.quarter_duration_map, t, _what="quarter_duration_map")
        check(int(qd) == q_at(t), "quarter_duration_map is not the value in force", shape, t)
        return obs

    h.__signature__ = inspect.Signature(
        [inspect.Parameter(n, inspect.Parameter.KEYWORD_ONLY, annotation=int) for n in names])
    return h


def _vectors(params):
    """Concrete vectors run on the real libraries (and against the models): exactly full first bar (the
    float tie), one division short / long of it, end points, change points on and off the barline."""
    qvals, tss, mkind, musical, custom, which = SHAPES[params["shape"]]
    b, bt = tss[0]
    full4 = b * 4 * qvals[0]  # full bar length * bt
    out = []
    lens = []
    if full4 % bt == 0:
        full = full4 // bt
        lens = [full, max(1, full - 1), full + 1]
    else:
        lens = [max(1, full4 // bt), full4 // bt + 1]
    for L in lens:
        for off in (0, 1):
            v = {"t_first": 0, "t_last": 3 * L + 7, "t": L}
            for i in range(1, len(qvals)):
                v["tq%d" % i] = L + off + 2 * (i - 1)
            for i in range(1, len(tss)):
                v["tts%d" % i] = L + (1 - off) + 3 * (i - 1)
            if mkind == "first":
                v["t_mend"] = L
            out.append(v)
            out.append(dict(v, t=v["t_last"]))
            out.append(dict(v, t=0))
    return out


def _instances(tier):
    names = QUICK if tier == "quick" else list(SHAPES)
    return [{"shape": n} for n in names]


HARNESSES = [
    H(
        name="time_maps",
        make=make,
        instances=_instances,
        models=["syminterp", "symdict", "symnp"],
        vectors=_vectors,
        budget={"quick": 200.0, "thorough": 900.0}, per_path_timeout=40.0,  # non-linear rate queries: 20 s per z3 query
        functions=["Part._time_interpolator", "Part.beat_map", "Part.inv_beat_map", "Part.quarter_map",
                   "Part.inv_quarter_map", "Part.quarter_duration_map", "Part.use_musical_beat",
                   "Part.set_musical_beat_per_ts", "Part.set_quarter_duration", "generic.interp1d"],
        bounds="<=3 quarter-duration values and <=3 time signatures per shape (catalogue SHAPES), optional first "
               "measure (full or pickup decided symbolically), notated/musical/custom beats; all positions and the "
               "query symbolic ints in [0, 10^7]; floats as reals with relative tolerance 1e-9",
        outside="IEEE rounding of the maps (engine B covers the tick kernel in C04); parts without a time "
                "signature at the first point; more change points than the catalogue",
    ),
]
