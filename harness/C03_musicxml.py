"""C03 (partial) — the MusicXML partitura writes denotes exactly the score's sounding notes.

Only the second sentence of the property is claimed: the element sequence the exporter produces for a
measure (`linearize_measure_contents`: voice linearisation, backup/forward, chord tags, grace notes, moving
notes that would need polyphony inside a voice) is read by an INDEPENDENT interpreter (position bookkeeping:
duration / backup / forward / chord / grace) and must denote the measure's notes: onset, duration, pitch
spelling, staff; tie flags.  Engine A with the element-tree model (no lxml, no bytes): the import half
(`load_musicxml`), the byte-for-byte fixpoint and everything about serialisation are NOT covered.
"""
import inspect

from engine.hdef import H, exclude_known
from engine.sym import check, must_not_raise, require

STEPS = "CDEFGAB"


def interpret(elements, start_pos, on_divisions=None, div0=1, unit=1, start_q=0):
    """independent MusicXML position bookkeeping: returns [(onset, duration, step, alter, octave, voice, staff, grace, tie_start, tie_stop, rest)]

    Two positions are kept: the raw sum of the written durations (``onset``/``dur``, what partitura's own reader
    uses) and the musical position a standard reader computes by applying <divisions> in document order
    (``onset_q``/``dur_q`` in 1/unit quarters: every duration counts unit/divisions, unit a common multiple of all
    divisions values of the measure)."""
    out = []
    pos = start_pos
    last_onset = start_pos
    div = div0
    qpos = start_q
    last_qonset = start_q
    for el in elements:
        tag = el.tag
        if tag == "attributes" and el.find("divisions") is not None:
            from engine import sym as _sym

            div = int(_sym.realize(int(el.find("divisions").text)))  # concrete per shape; keeps unit // div linear
            assert unit % div == 0, (unit, div)
            if on_divisions is not None:
                on_divisions(pos, div)
        if tag == "backup":
            pos = pos - int(el.find("duration").text)
            qpos = qpos - int(el.find("duration").text) * (unit // div)
        elif tag == "forward":
            pos = pos + int(el.find("duration").text)
            qpos = qpos + int(el.find("duration").text) * (unit // div)
        elif tag == "note":
            grace = el.find("grace") is not None
            chord = el.find("chord") is not None
            dur = 0 if grace else int(el.find("duration").text)
            onset = last_onset if chord else pos
            qonset = last_qonset if chord else qpos
            p = el.find("pitch")
            rest = el.find("rest") is not None or p is None
            step = alter = octave = None
            if p is not None:
                step = str(p.find("step").text)
                alter = int(p.find("alter").text) if p.find("alter") is not None else 0
                octave = int(p.find("octave").text)
            voice = int(el.find("voice").text) if el.find("voice") is not None else None
            staff = int(el.find("staff").text) if el.find("staff") is not None else None
            ties = [t.get("type") for t in el.findall("tie")]
            out.append(dict(onset=onset, dur=dur, step=step, alter=alter, octave=octave, voice=voice, staff=staff, grace=grace,
                            tie_start="start" in ties, tie_stop="stop" in ties, rest=rest, id=el.get("id"),
                            onset_q=qonset, dur_q=dur * (unit // div)))
            if not grace:
                if not chord:
                    last_onset = pos
                    pos = pos + dur
                    last_qonset = qpos
                    qpos = qpos + dur * (unit // div)
                # a chord member does not move the position (same duration as the chord's first note)
    return out, pos


def make_measure(shape, q=4, pin_pitch=True):
    """shapes: which notes exist; symbolic onsets/durations/octaves/staff."""
    names = ["on_a", "d_a", "on_b", "d_b", "oct_a", "alt_b", "v_b", "st_b"]

    def h(on_a: int, d_a: int, on_b: int, d_b: int, oct_a: int, alt_b: int, v_b: int, st_b: int):
        import partitura.score as S
        from partitura.io import exportmusicxml as EX

        bar = 4 * q
        t0 = bar if shape.endswith("_m2") else 0  # the measure under test is the second one of the part
        require(0 <= on_a)
        require(1 <= d_a)
        require(on_a + d_a <= bar)
        require(0 <= on_b)
        require(1 <= d_b)
        require(on_b + d_b <= bar)
        require(oct_a == 4 if pin_pitch else (0 <= oct_a <= 8))
        require(alt_b == 1 if pin_pitch else (-2 <= alt_b <= 2))
        require(1 <= v_b <= 2)
        require(st_b == 1 if pin_pitch else (1 <= st_b <= 2))
        part = S.Part("P", quarter_duration=q)
        part.add(S.TimeSignature(4, 4), 0)
        if t0:
            part.add(S.Measure(number=1), 0, t0)
            part.add(S.Rest(id="r0", voice=1, staff=1, symbolic_duration={"type": "whole"}), 0, t0)
        m = S.Measure(number=2 if t0 else 1)
        part.add(m, t0, t0 + bar)
        sd = {"type": "quarter"}
        notes = []
        a = S.Note("C", oct_a, None, id="a", voice=1, staff=1, symbolic_duration=dict(sd))
        part.add(a, t0 + on_a, t0 + on_a + d_a)
        notes.append(a)
        b = S.Note("F", 3, alt_b, id="b", voice=v_b, staff=st_b, symbolic_duration=dict(sd))
        part.add(b, t0 + on_b, t0 + on_b + d_b)
        notes.append(b)
        if shape in ("chord", "all", "divchange_chord"):  # divchange_chord: a chord in the segment before a divisions change
            c = S.Note("E", oct_a, None, id="c", voice=1, staff=1, symbolic_duration=dict(sd))  # chord with a
            part.add(c, t0 + on_a, t0 + on_a + d_a)
            notes.append(c)
        if shape in ("chord_uneq", "all", "poly_two"):
            d = S.Note("G", oct_a, 1, id="d", voice=1, staff=1, symbolic_duration=dict(sd))  # same onset as a, one division long
            part.add(d, t0 + on_a, t0 + on_a + 1)
            notes.append(d)
        if shape == "gap2":
            # a second note of b's voice after a one-division gap (no rest in between)
            require(on_b + d_b + 2 <= bar)
            f2 = S.Note("D", 3, None, id="f", voice=v_b, staff=st_b, symbolic_duration=dict(sd))
            part.add(f2, t0 + on_b + d_b + 1, t0 + on_b + d_b + 2)
            notes.append(f2)
        if shape == "poly_two":
            # an earlier note of the same voice still sounding when the unequal chord a/d begins: two notes have to be
            # moved to free voices, found in two passes
            require(on_a >= 1)
            e5 = S.Note("A", oct_a, None, id="e", voice=1, staff=1, symbolic_duration=dict(sd))
            part.add(e5, t0, t0 + on_a + 1)
            notes.append(e5)
        if shape in ("grace", "all"):
            g = S.GraceNote("acciaccatura", "B", 4, -1, id="g", voice=v_b, staff=st_b, symbolic_duration={"type": "eighth"})
            part.add(g, t0 + on_b, t0 + on_b)
            notes.append(g)
        t_w = None
        if shape == "direction":
            # a dynamics mark inside the measure (non-note elements are merged into the first voice)
            t_w = on_b + 1
            require(t_w < bar)
            part.add(S.Words("dolce", staff=1), t0 + t_w)
            part.add(S.DynamicLoudnessDirection("p", staff=1) if hasattr(S, "DynamicLoudnessDirection") else S.Words("p", staff=1), t0 + on_a + 1) if on_a + 1 < bar else None
        seen_div = []
        unit, chg = q, None
        if shape.startswith("divchange"):
            # divisions double at the half bar; notes do not cross the change
            half = bar // 2
            unit, chg = 2 * q, t0 + half
            if shape.startswith("divchange_x"):
                # the second voice sounds before the change, the first after it (<backup> would have to cross the change
                # if the measure were written as one segment)
                require(on_b + d_b <= half)
                require(on_a >= half)
            else:
                require(on_a + d_a <= half)
                require(on_b >= half)
            part.set_quarter_duration(t0 + half, 2 * q)
            # (timeline ticks after the change are half as long: b keeps its tick values)
        if shape in ("rest_tie", "all"):
            r = S.Rest(id="r", voice=1, staff=1, symbolic_duration=dict(sd))
            part.add(r, t0, t0 + 1)
            notes.append(r)
            b.tie_next = S.Note("F", 3, alt_b, id="b2", voice=v_b, staff=st_b)
        state = {"note_id_counter": {}, "range_counter": {}}
        els = must_not_raise(EX.linearize_measure_contents, part, m.start, m.end, state, _what="linearize_measure_contents")
        # timeline ticks -> 1/unit quarters (the part has divisions q up to chg and 2q after it)
        to_q = (lambda t: t * (unit // q)) if chg is None else (lambda t: t * 2 if t <= chg else chg * 2 + (t - chg))
        got, end_pos = interpret(els, t0, (lambda pos, d: seen_div.append((pos, d))), div0=q, unit=unit, start_q=to_q(t0))
        if shape.startswith("divchange"):
            check(any(d == 2 * q for (_, d) in seen_div), "the divisions change is not written", seen_div)
            for (posd, d) in seen_div:
                if d == 2 * q:
                    check(posd == t0 + bar // 2, "the divisions change is written at another position than where it applies", posd, t0 + bar // 2)
        check(len(got) == len(notes), "number of note elements", len(got), len(notes))
        for n in notes:
            hits = [e for e in got if e["id"] == n.id]
            check(len(hits) == 1, "note written once", n.id, [e["id"] for e in got])
            e = hits[0]
            is_grace = isinstance(n, S.GraceNote)
            check(e["onset"] == n.start.t, "the file places the note at another onset", n.id, e["onset"], n.start.t)
            check(e["dur"] == (0 if is_grace else n.end.t - n.start.t), "the file gives the note another duration", n.id, e["dur"])
            check(e["onset_q"] == to_q(n.start.t), "a reader applying <divisions> in document order hears the note at another time", n.id,
                  e["onset_q"], to_q(n.start.t))
            check(e["dur_q"] == (0 if is_grace else to_q(n.end.t) - to_q(n.start.t)),
                  "a reader applying <divisions> in document order hears another duration", n.id, e["dur_q"])
            check(e["grace"] == is_grace, "grace flag", n.id)
            if isinstance(n, S.Rest):
                check(e["rest"], "rest written as a pitched note")
            else:
                check(e["step"] == n.step and e["alter"] == (n.alter or 0) and e["octave"] == n.octave, "pitch spelling", n.id,
                      e["step"], e["alter"], e["octave"])
            if e["staff"] is not None:
                check(e["staff"] == n.staff, "staff", n.id, e["staff"])
            check(e["tie_start"] == (n.tie_next is not None) and e["tie_stop"] == (n.tie_prev is not None), "tie flags", n.id)
        # notes of one voice element must not overlap unless written as a chord (MusicXML voices are monophonic streams)
        for v in set(e["voice"] for e in got):
            stream = sorted([e for e in got if e["voice"] == v and not e["grace"]], key=lambda e: e["onset"])
            for x, y in zip(stream[:-1], stream[1:]):
                check(x["onset"] + x["dur"] <= y["onset"] or (x["onset"] == y["onset"] and x["dur"] == y["dur"]),
                      "polyphony left inside a voice", v, x["id"], y["id"])
        check(t0 <= end_pos <= t0 + bar, "position bookkeeping leaves the measure", end_pos)
        return [[e["id"], int(e["onset"]), int(e["dur"])] for e in got]

    return h


def _inst(tier):
    shapes = ["plain", "chord", "chord_uneq", "grace", "rest_tie", "direction", "divchange", "divchange_m2", "divchange_x", "divchange_x_m2", "divchange_chord", "poly_two", "gap2"] + (["all"] if tier != "quick" else [])
    out = [{"shape": s} for s in shapes]
    if tier != "quick":
        out += [{"shape": "plain", "pin_pitch": False}, {"shape": "chord", "q": 6}]
    return out


MODELS = ["syminterp", "symdict", "symnp:partitura.score,partitura.utils.generic,partitura.utils.music", "symetree", "realdict_generic",
          "untraced_subclasses", "quiet_generic"]
HARNESSES = [
    H("export_measure", make_measure, _inst, models=MODELS, budget={"quick": 300, "thorough": 1500}, lazy_format=True,
      functions=["exportmusicxml.linearize_measure_contents", "linearize_segment_contents", "remove_voice_polyphony", "find_free_voice",
                 "make_note_el", "do_note", "add_chord_tags", "forward_backup_if_needed", "merge_with_voice", "merge_measure_contents",
                 "do_attributes", "do_directions", "do_barlines", "do_harmony", "do_prints"],
      bounds="one 4/4 measure, divisions 4; two notes with symbolic onset/duration, symbolic octave / alteration / voice (1..2) / "
             "staff (1..2); optional chord member, chord member of other duration, grace note, rest and tie flag, words/dynamics "
             "inside the measure, a mid-measure divisions change (notes not crossing it) in the first or in a later measure, an unequal chord "
             "overlapped by an earlier note of its voice, two notes with a gap between them in the second voice, per shape; "
             "symbolic durations given (the estimator is C11's)",
      outside="load_musicxml, serialisation to bytes and the re-export fixpoint, part lists / groups, slurs, tuplets, "
              "notes crossing a divisions change, more than four notes per measure"),
]
