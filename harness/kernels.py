"""Engine B obligations shared by C04 / C06 / C08 / C12: float kernels translated from the live source."""
import time

import z3

from encoders import astfp
from encoders.astfp import Translator, UnsupportedKernel, Val, as_real, int_var


def _result(name, params, status, queries, solver_s, sample=None, detail=None, replay=None):
    r = {"harness": name, "params": params, "status": status, "engine": "B", "queries": queries,
         "nontrivial": queries, "solver_s": round(solver_s, 3), "sample": sample, "detail": detail}
    if replay is not None:
        r["replay"] = replay
    return r


# --------------------------------------------------------------------------- to_ppq (C04)
def _qm_single_segment(T, q):
    """quarter_map of a part with one quarter duration q whose points span [0, T]:
    _time_interpolator builds x=[0,T], y=[0, (1.0*T)/q]; np.interp evaluates slope*(t-x_lo)+y_lo with
    slope=(y_hi-y_lo)/(x_hi-x_lo) and returns the knot values exactly at the knots."""

    def qm(tr: Translator, t: Val) -> Val:
        import ast

        one = tr.const(1.0)
        zero = tr.const(0.0)
        y_hi = tr.binop(ast.Div(), tr.binop(ast.Mult(), one, T), q)
        slope = tr.binop(ast.Div(), tr.binop(ast.Sub(), y_hi, zero), tr.binop(ast.Sub(), tr.to_float(T), zero))
        inner = tr.binop(ast.Add(), tr.binop(ast.Mult(), slope, tr.binop(ast.Sub(), tr.to_float(t), zero)), zero)
        # knots are exact
        if tr.mode == "fp":
            tf, Tf = tr.to_float(t).term, tr.to_float(T).term
            term = z3.If(z3.fpEQ(tf, Tf), y_hi.term, z3.If(z3.fpEQ(tf, zero.term), zero.term, inner.term))
        else:
            term = z3.If(t.term == T.term, y_hi.term, z3.If(t.term == 0, zero.term, inner.term))
        return Val("float", term)

    return qm


def split_wrappers(expr):
    """strip the outer int()/np.round()/round() conversions: returns (inner float expr, [wrapper names outer->inner])."""
    import ast

    chain = []
    node = expr
    while isinstance(node, ast.Call) and len(node.args) == 1 and not node.keywords:
        f = node.func
        name = f.id if isinstance(f, ast.Name) else (f.value.id + "." + f.attr if isinstance(f, ast.Attribute) and isinstance(f.value, ast.Name) else None)
        if name in ("int", "np.round", "np.rint", "round"):
            chain.append(name)
            node = node.args[0]
        else:
            break
    return node, chain


def apply_wrappers(tr, chain, v):
    for name in reversed(chain):
        v = tr.trunc_int(v) if name == "int" else tr.round_half_even(v)
    return tr.trunc_int(v) if v.kind == "float" and chain and chain[0] == "int" else v


EPS = z3.Q(1, 1000)


def conversion_recovers_integer(chain):
    """query 2: for every real p and integer K with |p-K| <= EPS, conv(p) == K ?  (unsat = yes)"""
    s = z3.Solver()
    p = z3.Real("p")
    K = z3.Int("K")
    s.add(K >= 0, K <= 2 ** 31, p - z3.ToReal(K) <= EPS, z3.ToReal(K) - p <= EPS)
    tr = Translator("relax", {}, s)
    v = apply_wrappers(tr, chain, Val("float", p))
    got = v.term if v.kind == "int" else z3.ToInt(v.term)
    s.add(got != K)
    return astfp.solve(s, 20)


def to_ppq_obligations(tier):
    """claim: to_ppq(t) == ppq*t/q whenever that is an integer (single-segment quarter map, ftp = 0).
    Proof split: (1) relative-error lemma over the reals |float value - ppq*t/q| <= 1/1000 for all t<=2^16,
    T<=2^17 (one query per q, ppq);  (2) the outer conversion found in the source maps every p within 1/1000
    of an integer K to K.  If (2) fails (e.g. truncation) a bit-precise search looks for a concrete input."""
    import partitura.io.exportmidi as EM

    qs = [1, 2, 3, 4, 5, 6, 7, 8, 10, 12, 16, 24, 48, 96, 100, 120, 240, 480, 791, 960] if tier == "quick" \
        else list(range(1, 961))
    mults = [1, 2] if tier == "quick" else [1, 2, 4, 8]
    try:
        fn = astfp.find_function(EM, "save_score_midi.to_ppq")
        expr = astfp.return_expr(fn)
        inner, chain = split_wrappers(expr)
    except UnsupportedKernel as e:
        return [_result("to_ppq", {}, "harness-error", 0, 0.0, detail="kernel not translatable: %s" % e)]
    nq, t_solver = 0, 0.0
    unknown = []
    sample = None
    params = {"q_values": len(qs), "ppq_multipliers": mults, "conversion": chain}
    for q in qs:
        for m in mults:
            ppq = q * m
            s = z3.Solver()
            t, T = z3.Real("t"), z3.Real("T")
            s.add(t >= 0, t <= 2 ** 16, T >= 1, T <= 2 ** 17, t <= T)
            tr = Translator("relax", {"ppq": ppq, "ftp": 0, "t": Val("float", t),
                                      "qm": _qm_single_segment(Val("float", T), Val("int", z3.IntVal(q)))}, s)
            try:
                pv = tr.tr(inner)
            except UnsupportedKernel as e:
                return [_result("to_ppq", params, "harness-error", nq, t_solver, detail="kernel not translatable: %s" % e)]
            err = pv.term - t * m
            s.add(z3.Or(err > EPS, err < -EPS))
            r, dt = astfp.solve(s, 30)
            nq += 1
            t_solver += dt
            if sample is None:
                sample = {"q": q, "ppq": ppq, "lemma": "|fl(ppq*(qm(t)-ftp)) - ppq*t/q| <= 1/1000", "result": r, "float_ops": tr.ops}
            if r != "unsat":
                unknown.append({"q": q, "ppq": ppq, "lemma": r})
    r2, dt2 = conversion_recovers_integer(chain)
    nq += 1
    t_solver += dt2
    if r2 == "unsat" and not unknown:
        return [_result("to_ppq", params, "confirmed", nq, t_solver, sample=sample)]
    # the relaxation cannot prove the claim: search a concrete counterexample bit-precisely (q symbolic)
    s2 = z3.Solver()
    qv = int_var("q", 1, 960, s2, "fp")
    t2 = int_var("t", 0, 2 ** 12, s2, "fp")
    s2.add(t2.term <= 4 * qv.term)
    T2 = Val("int", 4 * qv.term)  # a part of four quarters
    tr2 = Translator("fp", {"ppq": qv, "ftp": 0, "t": t2, "qm": _qm_single_segment(T2, qv)}, s2)
    tick2 = tr2.tr(expr)
    got = tick2.term if tick2.kind == "int" else z3.fpToSBV(z3.RNE(), tick2.term, z3.BitVecSort(64))
    s2.add(got != t2.term)  # ppq = q: the exact tick is t
    r3, dt3 = astfp.solve(s2, 120 if tier == "quick" else 900)
    nq += 1
    t_solver += dt3
    if r3 == "sat":
        md = s2.model()
        cex = {"q": md.eval(qv.term, True).as_long(), "t": md.eval(t2.term, True).as_long()}
        return [_result("to_ppq", params, "violation-candidate", nq, t_solver, sample=cex, replay=cex,
                        detail="conversion %r does not recover the integer tick; bit-precise model found" % chain)]
    return [_result("to_ppq", params, "inconclusive", nq, t_solver, sample=sample,
                    detail="conversion step: %s; lemma failures: %r; bit-precise search: %s" % (r2, unknown[:5], r3))]


# --------------------------------------------------------------------------- tick <-> seconds (C06/C08/C12)
PPQ_MPQ = [(480, 500000), (96, 600000), (1000, 250000), (384, 1000000), (960, 416666), (24, 500000), (220, 451127)]


def tick_roundtrip_obligations(tier):
    """claims (for every listed ppq/mpq, ticks k <= 2^24):
       (a) seconds_to_midi_ticks(midi_ticks_to_seconds(k)) == k
       (b) |seconds_to_midi_ticks(s) - 1e6*ppq*s/mpq| <= 1/2 + 2^-20 for every float s in [0, 10^5] seconds."""
    import partitura.utils.music as M

    out = []
    pairs = PPQ_MPQ[:4] if tier == "quick" else PPQ_MPQ
    try:
        f_s2t = astfp.find_function(M, "seconds_to_midi_ticks")
        e_round = astfp.assigned_expr(f_s2t, "midi_ticks")
        f_t2s = astfp.find_function(M, "midi_ticks_to_seconds")
        e_sec = astfp.assigned_expr(f_t2s, "time_in_seconds")
    except UnsupportedKernel as e:
        return [_result("tick_roundtrip", {}, "harness-error", 0, 0.0, detail="kernel not translatable: %s" % e)]
    nq, ts = 0, 0.0
    bad = []
    sample = None
    for ppq, mpq in pairs:
        # (a)
        s = z3.Solver()
        k = int_var("k", 0, 2 ** 24, s)
        tr = Translator("relax", {"mpq": mpq, "ppq": ppq, "midi_ticks": k}, s)
        sec = tr.tr(e_sec)
        tr.env["time_in_seconds"] = sec
        back = tr.trunc_int(tr.tr(e_round))
        s.add(back.term != k.term)
        r, dt = astfp.solve(s, 30)
        nq += 1
        ts += dt
        if sample is None:
            sample = {"ppq": ppq, "mpq": mpq, "claim": "ticks->seconds->ticks identity", "result": r, "float_ops": tr.ops}
        if r != "unsat":
            bad.append({"claim": "a", "ppq": ppq, "mpq": mpq, "result": r, "model": str(s.model()) if r == "sat" else None})
        # (b)
        s = z3.Solver()
        x = z3.Real("s")
        s.add(x >= 0, x <= 10 ** 5)
        tr = Translator("relax", {"mpq": mpq, "ppq": ppq, "time_in_seconds": Val("float", x)}, s)
        tick = tr.trunc_int(tr.tr(e_round))
        exact = x * z3.RealVal(10 ** 6 * ppq) / z3.RealVal(mpq)
        err = z3.ToReal(tick.term) - exact
        bound = z3.RealVal("1/2") + z3.RealVal(2) ** -20 if False else z3.Q(1, 2) + z3.Q(1, 2 ** 20)
        s.add(z3.Or(err > bound, err < -bound))
        r, dt = astfp.solve(s, 30)
        nq += 1
        ts += dt
        if r != "unsat":
            bad.append({"claim": "b", "ppq": ppq, "mpq": mpq, "result": r})
    status = "confirmed" if not bad else "inconclusive"
    return [_result("tick_roundtrip", {"pairs": pairs}, status, nq, ts, sample=sample,
                    detail=("not proved: %r" % bad[:4]) if bad else None)]
