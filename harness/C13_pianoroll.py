"""C13 — a piano roll shows exactly the given notes, in their cells, with their velocity.

Engine A on `_make_pianoroll` / `compute_pianoroll` with two (thorough: three)
notes whose pitch, velocity and onset frame are symbolic ints, durations are
symbolic and enumerated in 0..3 frames (they become array lengths), a
concrete sub-frame offset, and a concrete option tuple per instance.  Oracle:
independent rasteriser written from the statement.  The pitch-class fold and
the inverse (`pianoroll_to_notearray`) are dense numeric kernels and are run
on concrete vectors with the real numpy/scipy only.
"""
import inspect

from engine.hdef import H
from engine.sym import check, must_not_raise, require


def expected(notes, time_div, sub, opt):
    """notes: [(pitch, k_on, d_frames, vel)] with onset=(k_on+sub)/time_div, duration=d_frames/time_div.
    returns (M, N, cells [(row, col, val)], idx rows [(row, on, off, pitch)])"""
    onset_only, note_sep, pmargin, tmargin, piano_range, remove_silence, binary, with_vel, end_extra = opt
    ks = [n[1] for n in notes]
    kmin = ks[0]
    for k in ks[1:]:
        if k < kmin:
            kmin = k
    # min_time = first onset (remove_silence) else 0 (onsets are >= 0 here)
    # min_time: first onset when silence is removed, the smallest onset when it is negative, else 0
    shift = kmin if (remove_silence or kmin < 0) else 0  # in frames; the sub-frame part cancels / rounds away
    lo = hi = notes[0][0]
    for n in notes[1:]:
        if n[0] < lo:
            lo = n[0]
        if n[0] > hi:
            hi = n[0]
    if pmargin > -1:
        M = hi - lo + 1 + 2 * pmargin
        rowof = lambda p: p - lo + pmargin
    else:
        M = 128
        rowof = lambda p: p
    rows_from = 21 if piano_range else 0
    if piano_range:
        M = 88
    cells, idx = [], []
    last = None
    for (p, k, d, v) in notes:
        on = k - shift + tmargin * time_div
        dur = d if d >= 1 else 1
        off = on + dur
        if last is None or off > last:
            last = off
        if onset_only:
            span = [on]
            off_eff = off
        else:
            n_span = dur - (1 if note_sep else 0)
            if n_span < 1:
                n_span = 1  # never less than one frame
            off_eff = on + n_span
            span = [on + i for i in range(n_span)]
        val = 1 if (binary or not with_vel) else v
        for c in span:
            cells.append((rowof(p) - rows_from, c, val, p))
        idx.append((rowof(p) - rows_from, on, off_eff if not onset_only else off, p))
    N = tmargin * time_div + last + (end_extra if end_extra is not None else 0)
    return M, N, cells, idx


def make(n_notes, time_div, sub_num, opt, dmax=3):
    onset_only, note_sep, pmargin, tmargin, piano_range, remove_silence, binary, with_vel, end_extra = opt
    names, ann = [], {}
    for i in range(n_notes):
        for f in ("p", "k", "d", "v"):
            names.append("%s%d" % (f, i))
    sub = sub_num / 4.0  # -0.25, 0, 0.25 of a frame

    def h(**kw):
        import numpy as np
        from partitura.utils import music as M
        from envmodels.symnp import NP_OBJ, SymArray
        from envmodels.symsparse import entries_of
        from engine import sym

        notes = []
        for i in range(n_notes):
            p, k, d, v = kw["p%d" % i], kw["k%d" % i], kw["d%d" % i], kw["v%d" % i]
            require((21 if piano_range else 0) <= p <= (108 if piano_range else 127))
            require(-6 <= k <= 40)
            require((0 if i == 0 else dmax - 1) <= d <= dmax)
            require(1 <= v <= 127)
            d = sym.realize(d)  # durations become array lengths: enumerated
            notes.append((p, k, d, v))
        rows = []
        for (p, k, d, v) in notes:
            r = [p, (k + sub) / time_div, d / time_div]
            if with_vel:
                r.append(v)
            rows.append(r)
        if sym._ACTIVE["symbolic"]:
            arr = NP_OBJ.array(rows)
        else:
            arr = np.array(rows, dtype=float)
        kmax = notes[0][1]
        kmin = notes[0][1]
        for n in notes[1:]:
            kmax = n[1] if n[1] > kmax else kmax
            kmin = n[1] if n[1] < kmin else kmin
        end_time = None
        Mx, Nx, cells, idx = expected(notes, time_div, sub, opt)
        if end_extra is not None:
            # end_time (in time units, before the min_time shift) = last offset + end_extra frames
            last_abs = None
            for (p, k, d, v) in notes:
                o = k + (d if d >= 1 else 1)
                last_abs = o if last_abs is None or o > last_abs else last_abs
            end_time = (last_abs + end_extra) / time_div
            if sub != 0:
                require(kmin >= 1)  # keeps the sub-frame offset from moving min_time across a frame border
            # number of columns with an explicit end: both margins plus the frames from the time origin of the roll
            # (first onset when silence is removed, else 0 or the smallest negative onset) to end_time, rounded up.
            # Exact in quarter frames: onsets are (4k + sub_num)/4 frames.
            on4 = [4 * k + sub_num for (p, k, d, v) in notes]
            m4 = on4[0]
            for x in on4[1:]:
                m4 = x if x < m4 else m4
            if not remove_silence:
                m4 = m4 if m4 < 0 else 0
            frames4 = 4 * (last_abs + end_extra) - m4
            Nx = 2 * tmargin * time_div + (frames4 + 3) // 4
        res = must_not_raise(M._make_pianoroll, arr, onset_only=onset_only, pitch_margin=pmargin,
                             time_margin=tmargin, time_div=time_div, note_separation=note_sep, return_idxs=True,
                             piano_range=piano_range, remove_silence=remove_silence, end_time=end_time,
                             binary=binary, _what="_make_pianoroll")
        pr, pr_idx = res
        check(pr.shape[0] == Mx, "number of rows", pr.shape[0], Mx)
        check(pr.shape[1] == Nx, "number of columns", pr.shape[1], Nx)
        ent = entries_of(pr)
        # expected cells with collisions merged (max velocity)
        merged = []
        for (r, c, val, p) in cells:
            hit = None
            for j, (rr, cc, vv) in enumerate(merged):
                if rr == r and cc == c:
                    hit = j
            if hit is None:
                merged.append((r, c, val))
            elif val > merged[hit][2]:
                merged[hit] = (r, c, val)
        check(len(ent) == len(merged), "number of non-zero cells", len(ent), len(merged))
        for (r, c, val) in merged:
            hits = [e for e in ent if e[0] == r and e[1] == c]
            check(len(hits) == 1, "a sounding cell is empty (or duplicated)", r, c)
            check(hits[0][2] == val, "cell does not hold the note's own velocity (max on collision)", r, c, hits[0][2], val)
        got_idx = pr_idx.tolist()
        check(len(got_idx) == n_notes, "index rows")
        for g, e in zip(got_idx, idx):
            check([int(x) for x in g] == [e[0], e[1], e[2], e[3]], "per-note index row (input order)", g, e)
        return [sorted([list(map(int, e)) for e in ent]), [list(map(int, g)) for g in got_idx]]

    h.__signature__ = inspect.Signature([inspect.Parameter(n, inspect.Parameter.KEYWORD_ONLY, annotation=int) for n in names])
    return h


def make_dense(time_div):
    """compute_pianoroll / pitch-class fold / inverse on concrete vectors (real numpy + scipy)."""

    def h(p0: int, k0: int, d0: int, v0: int, p1: int, k1: int, d1: int, v1: int):
        import numpy as np
        from partitura.utils import music as M
        from engine import sym

        for p, k, d, v in ((p0, k0, d0, v0), (p1, k1, d1, v1)):
            require(21 <= p <= 108)
            require(0 <= k <= 40)
            require(1 <= d <= 4)
            require(1 <= v <= 127)
        require(p0 != p1)
        if sym._ACTIVE["symbolic"]:
            return 0
        na = np.array([(p0, k0 / time_div, d0 / time_div, v0, "a"), (p1, k1 / time_div, d1 / time_div, v1, "b")],
                      dtype=[("pitch", "i4"), ("onset_sec", "f4"), ("duration_sec", "f4"), ("velocity", "i4"), ("id", "U8")])
        pr = must_not_raise(M.compute_pianoroll, na, time_unit="sec", time_div=time_div, remove_silence=False,
                            _what="compute_pianoroll")
        dense = pr.toarray()
        check(dense.shape[0] == 128, "128 rows")
        for (p, k, d, v) in ((p0, k0, d0, v0), (p1, k1, d1, v1)):
            check(all(dense[p, k + i] == v for i in range(d)), "cells of a note hold its velocity", p, k, d, v)
        check(int((dense != 0).sum()) == d0 + d1, "no other cell is set")
        pc = must_not_raise(M.compute_pitch_class_pianoroll, na, time_unit="sec", time_div=time_div,
                            remove_silence=False, normalize=False, _what="compute_pitch_class_pianoroll")
        fold = np.zeros((12, dense.shape[1]))
        for p in range(128):
            fold[p % 12] += dense[p]
        check(np.array_equal(pc, fold), "pitch-class roll is not the octave fold of the full roll")
        pcn = M.compute_pitch_class_pianoroll(na, time_unit="sec", time_div=time_div, remove_silence=False, normalize=True)
        s = fold.sum(0)
        s[s == 0] = 1
        check(np.allclose(pcn, fold / s), "normalised pitch-class roll")
        # drum channel: with a channel column, notes on channel 9 (and only those) are left out by default
        nad = np.array([(p0, k0 / time_div, d0 / time_div, v0, "a", 0), (p1, k1 / time_div, d1 / time_div, v1, "b", 10),
                        (36, k0 / time_div, d0 / time_div, 100, "d", 9)],
                       dtype=[("pitch", "i4"), ("onset_sec", "f4"), ("duration_sec", "f4"), ("velocity", "i4"), ("id", "U8"), ("channel", "i4")])
        prd, idxd = must_not_raise(M.compute_pianoroll, nad, time_unit="sec", time_div=time_div, remove_silence=False, return_idxs=True,
                                   _what="compute_pianoroll(channel column)")
        check(np.array_equal(prd.toarray(), dense), "the drum channel is not (or more than the drum channel is) removed from the roll")
        check(sorted(int(r[3]) for r in idxd) == sorted([p0, p1]), "index rows with a drum channel present", idxd.tolist())
        prk = must_not_raise(M.compute_pianoroll, nad, time_unit="sec", time_div=time_div, remove_silence=False, remove_drums=False,
                             _what="compute_pianoroll(remove_drums=False)")
        check(int((prk.toarray()[36] != 0).sum()) >= d0, "remove_drums=False drops the drum note")
        # a repeated pitch across an entirely silent frame must come back as separate notes
        rep = np.zeros((128, 7), dtype=int)
        rep[p0, 0:2] = v0
        rep[p0, 3:5] = v0
        rep[p0, 6:7] = v0
        rb = must_not_raise(M.pianoroll_to_notearray, rep, time_div, "sec", _what="pianoroll_to_notearray(repeated)")
        check(len(rb) == 3, "repeated notes separated by silent frames are merged", len(rb))
        # inverse on non-touching notes
        back = must_not_raise(M.pianoroll_to_notearray, dense, time_div, "sec", _what="pianoroll_to_notearray")
        exp = sorted([(k0, p0, d0, v0), (k1, p1, d1, v1)])
        got = sorted([(int(round(float(r["onset_sec"]) * time_div)), int(r["pitch"]),
                       int(round(float(r["duration_sec"]) * time_div)), int(r["velocity"])) for r in back])
        check(got == exp, "inverse does not recover pitch/onset/duration/velocity", got, exp)
        return [got]

    return h


# option tuples: (onset_only, note_sep, pitch_margin, time_margin, piano_range, remove_silence, binary, with_vel, end_extra)
OPTS_Q = [
    (False, False, -1, 0, False, True, False, True, None),
    (False, True, -1, 0, False, False, False, True, None),
    (True, False, -1, 1, False, True, False, True, None),
    (False, False, 2, 0, False, True, False, True, None),
    (False, True, 0, 1, False, False, True, True, None),
    (False, False, -1, 0, True, True, False, False, None),
    (False, False, -1, 0, False, False, False, True, 2),
]
OPTS_T = OPTS_Q + [
    (True, True, 2, 0, False, False, True, False, None),
    (False, True, -1, 1, True, True, False, True, 0),
    (False, False, 1, 1, False, True, False, True, 3),
    (True, False, -1, 0, True, False, False, True, None),
]


def _inst(tier):
    out = []
    if tier == "quick":
        for i, o in enumerate(OPTS_Q):
            out.append({"n_notes": 2, "time_div": (1, 4)[i % 2], "sub_num": (0, 1, -1)[i % 3], "opt": list(o), "dmax": 2})
        return out
    for i, o in enumerate(OPTS_T):
        for td in (1, 4):
            out.append({"n_notes": 2, "time_div": td, "sub_num": (0, 1, -1)[i % 3], "opt": list(o)})
    out.append({"n_notes": 3, "time_div": 2, "sub_num": 0, "opt": list(OPTS_T[0])})
    out.append({"n_notes": 3, "time_div": 1, "sub_num": 1, "opt": list(OPTS_T[4])})
    return out


HARNESSES = [
    H("raster", lambda n_notes, time_div, sub_num, opt, dmax=3: make(n_notes, time_div, sub_num, tuple(opt), dmax), _inst,
      models=["symnp:partitura.utils.music!", "symsparse", "symdict_music"], budget={"quick": 150, "thorough": 900},
      functions=["music._make_pianoroll"],
      bounds="2 (thorough: 3) notes in any order: pitch 0..127 (21..108 in piano range), velocity 1..127 and onset "
             "frame -6..40 symbolic, duration 0..3 frames enumerated (first note 0..dmax, others dmax-1..dmax; dmax=2 in quick), concrete sub-frame offset in {-1/4,0,1/4}; "
             "time_div in {1,2,4}; option tuples from the catalogue (onset_only, note_separation, pitch_margin, "
             "time_margin, piano_range, remove_silence, binary, with/without velocity column, end_time)",
      outside="negative onsets, min_time argument, more notes, exact half-frame ties of the rounding"),
    H("dense", make_dense, lambda tier: [{"time_div": 4}, {"time_div": 8}], budget={"quick": 20, "thorough": 60}, core=False,
      vectors=[{"p0": 60, "k0": 0, "d0": 2, "v0": 64, "p1": 72, "k1": 1, "d1": 1, "v1": 10},
               {"p0": 21, "k0": 5, "d0": 4, "v0": 127, "p1": 108, "k1": 0, "d1": 3, "v1": 1},
               {"p0": 61, "k0": 3, "d0": 1, "v0": 2, "p1": 49, "k1": 3, "d1": 2, "v1": 99},
               {"p0": 60, "k0": 0, "d0": 1, "v0": 64, "p1": 72, "k1": 9, "d1": 1, "v1": 64}],
      functions=["music.compute_pianoroll", "music.compute_pitch_class_pianoroll", "music.pianoroll_to_notearray"],
      bounds="dense numeric kernels (toarray, fold, run-length decoding): concrete vectors on the real numpy/scipy only"),
]
